//go:build verifsym

package main

import (
	"context"
	"net/http"

	"github.com/transparency-dev/witness/internal/feeder/bastion"
	rt "github.com/transparency-dev/witness/internal/verifrt"
)

// VerifWriterRoundTrip: the body the repository's own writer produces is parsed back by
// the bastion endpoint's parser to the proof and checkpoint that were written.
func VerifWriterRoundTrip() {
	b := &bastionClient{httpClient: &http.Client{}, url: "https://bastion.example/add-checkpoint"}
	kmin := rt.Param("kmin", 0)
	k := kmin + rt.Choose(rt.Param("k", 2)-kmin+1)
	var proof [][]byte
	for i := 0; i < k; i++ {
		if i > 0 && rt.Param("samehash", 0) == 1 {
			proof = append(proof, proof[0]) // long-proof run: one arbitrary hash repeated
			continue
		}
		h := rt.Bytes("h")
		rt.Assume(string(h) != "" && rt.LenLE(string(h), 64))
		proof = append(proof, h)
	}
	cp := rt.Bytes("cp")
	rt.ResetEvents()
	_, _ = b.Update(context.Background(), "logid", rt.U64("oldSize"), cp, proof)
	ev, ok := rt.Find("http.Post", 0)
	rt.Assert(ok, "C11/writer-posts")
	if !ok {
		return
	}
	body := string(ev.B[1])
	rt.Assume(rt.LenLE(body, rt.Param("maxbody", 4000)))
	n, p, gotCP, err := bastion.VerifParseBody(&rt.StrReader{S: body})
	rt.Cover(err == nil && k == 2, "writer/roundtrip-two")
	rt.Assert(err == nil, "C11/writer-body-parses")
	if err != nil {
		return
	}
	// the writer always announces old size 0 (its GetLatestCheckpoint always reports "no checkpoint")
	rt.Assert(n == 0, "C11/writer-old-size")
	rt.Assert(len(p) == k, "C11/writer-proof-length")
	if len(p) == k {
		for i := range proof {
			rt.Assert(rt.Eq(p[i], proof[i]), "C11/writer-proof-hash")
		}
	}
	rt.Assert(rt.Eq(gotCP, cp), "C11/writer-checkpoint")
}
