//go:build verifsym

package main

import (
	"context"
	"net"
	"net/http"
	"time"

	rt "github.com/transparency-dev/witness/internal/verifrt"
	"github.com/transparency-dev/witness/omniwitness"
	"golang.org/x/mod/sumdb/note"
)

var (
	verifMainCalled int
	verifMainP      omniwitness.LogStatePersistence
	verifMainCfg    omniwitness.OperatorConfig
)

// verifMainModel stands in for omniwitness.Main (a whole-program service loop): it only
// records what main() hands over.
//
//wsym:replace github.com/transparency-dev/witness/omniwitness.Main
func verifMainModel(ctx context.Context, operatorConfig omniwitness.OperatorConfig, p omniwitness.LogStatePersistence, httpListener net.Listener, httpClient *http.Client) error {
	if rt.Param("wire", 0) == 1 {
		// H-WIRE runs the real function
		return omniwitness.Main(ctx, operatorConfig, p, httpListener, httpClient)
	}
	verifMainCalled++
	verifMainP, verifMainCfg = p, operatorConfig
	return nil
}

// VerifMainWiring is H-MAIN: the real main() of cmd/omniwitness with arbitrary flag values.
// When a database file is configured, the persistence handed to the service is the SQL one over
// the handle that sql.Open returned, and that handle was limited to ONE open connection before
// use (the assumption under which C05/C06/C07 analyse the SQL store); otherwise it is the
// in-memory store. Both witness keys are handed over, and the verifier is the cosignature/v1 one.
func VerifMainWiring() {
	s := func(name string) *string { v := rt.Str(name); return &v }
	addr, metricsAddr, dbFile = s("listen"), s("metrics_listen"), s("db_file")
	signingKey, restDistributorBaseURL = s("private_key"), s("rest_distro_url")
	bastionAddr, bastionKeyPath = s("bastion_addr"), s("bastion_key_path")
	rate := 20.0
	bastionRateLimit = &rate
	to, poll := 10*time.Second, time.Minute
	httpTimeout, pollInterval = &to, &poll
	rt.Assume(*metricsAddr == "")    // the metrics branch starts a goroutine + HTTP server: outside the encodable set
	rt.Assume(*bastionKeyPath == "") // reading a key file: outside
	rt.ResetEvents()
	main()
	rt.Cover(verifMainCalled == 1 && *dbFile != "", "main/sql-persistence")
	rt.Cover(verifMainCalled == 1 && *dbFile == "", "main/in-memory-persistence")
	if verifMainCalled == 0 {
		return
	}
	rt.Assert(verifMainCalled == 1, "C05/main-starts-the-service-once")
	if *dbFile != "" {
		rt.Assert(rt.SQLOpens == 1 && rt.LastDB != nil, "C05/main-opens-the-database-once")
		if rt.LastDB != nil {
			rt.Assert(rt.DB(rt.LastDB).MaxOpen == 1, "C05/single-connection-pool-in-production")
			// the persistence handed over really is the SQL store over that very handle
			if err := verifMainP.Init(); err == nil {
				rt.Assert(rt.DB(rt.LastDB).Created, "C05/persistence-uses-the-limited-handle")
			}
		}
	} else {
		rt.Assert(rt.SQLOpens == 0, "C05/no-database-without-db-file")
	}
	rt.Assert(len(verifMainCfg.WitnessKeys) == 2, "C04/both-witness-keys-configured")
	if len(verifMainCfg.WitnessKeys) == 2 {
		_, legacy := verifMainCfg.WitnessKeys[0].(*rt.Signer)
		var _ note.Signer = verifMainCfg.WitnessKeys[1]
		rt.Assert(legacy, "C04/first-key-is-the-legacy-signer")
		v, ok := verifMainCfg.WitnessVerifier.(*rt.Verifier)
		rt.Assert(ok && v.K == rt.UFU64("cosigKeyOfText", *signingKey), "C04/witness-verifier-is-the-cosignature-v1-key")
	}
}
