//go:build verifsym

package omniwitness

import (
	"context"
	"crypto/ed25519"
	"net"
	"net/http"
	"time"

	"github.com/gorilla/mux"
	"github.com/transparency-dev/witness/internal/config"
	"github.com/transparency-dev/witness/internal/distribute/rest"
	"github.com/transparency-dev/witness/internal/feeder"
	"github.com/transparency-dev/witness/internal/feeder/bastion"
	"github.com/transparency-dev/witness/internal/feeder/pixelbt"
	"github.com/transparency-dev/witness/internal/feeder/rekor"
	"github.com/transparency-dev/witness/internal/feeder/serverless"
	"github.com/transparency-dev/witness/internal/feeder/sumdb"
	"github.com/transparency-dev/witness/internal/feeder/tiles"
	"github.com/transparency-dev/witness/internal/persistence/inmemory"
	rt "github.com/transparency-dev/witness/internal/verifrt"
	"golang.org/x/mod/sumdb/note"
	"golang.org/x/sync/errgroup"
	"gopkg.in/yaml.v3"
)

// H-WIRE: the real omniwitness.Main on an arbitrary log configuration. Everything Main starts
// is a recorder (wire=1): the feeders, the bastion feeder, the distributor constructor and the
// HTTP server note which log descriptions they were handed; goroutines are threads of the
// engine, and one that waits on a channel simply never continues.

var verifWireCfg LogConfig

func wireOn() bool { return rt.Param("wire", 0) == 1 }

//wsym:replace gopkg.in/yaml.v3.Unmarshal
func verifYAMLUnmarshal(in []byte, out any) error {
	lc, ok := out.(*LogConfig)
	if !ok || !wireOn() {
		rt.Unsupported("yaml.Unmarshal outside the wiring harness")
	}
	*lc = verifWireCfg
	return nil
}

var _ = yaml.Unmarshal

//wsym:replace golang.org/x/sync/errgroup.WithContext
func verifErrgroupWithContext(ctx context.Context) (*errgroup.Group, context.Context) {
	return &errgroup.Group{}, ctx
}

//wsym:replace (*golang.org/x/sync/errgroup.Group).Go
func verifErrgroupGo(g *errgroup.Group, f func() error) {
	rt.Spawn(func() { _ = f() })
}

//wsym:replace (*golang.org/x/sync/errgroup.Group).Wait
func verifErrgroupWait(g *errgroup.Group) error {
	rt.RunThreads()
	return nil
}

func wireRecord(kind string, l config.Log) {
	rt.Log(rt.Ev{K: kind, B: [][]byte{[]byte(l.ID), []byte(l.Origin)}})
}

//wsym:replace github.com/transparency-dev/witness/internal/feeder/serverless.FeedLog
func verifWireServerless(ctx context.Context, l config.Log, w feeder.Witness, c *http.Client, interval time.Duration) error {
	if !wireOn() {
		return serverless.FeedLog(ctx, l, w, c, interval)
	}
	wireRecord("wire.feeder", l)
	return nil
}

//wsym:replace github.com/transparency-dev/witness/internal/feeder/sumdb.FeedLog
func verifWireSumdb(ctx context.Context, l config.Log, w feeder.Witness, c *http.Client, interval time.Duration) error {
	if !wireOn() {
		return sumdb.FeedLog(ctx, l, w, c, interval)
	}
	wireRecord("wire.feeder", l)
	return nil
}

//wsym:replace github.com/transparency-dev/witness/internal/feeder/pixelbt.FeedLog
func verifWirePixel(ctx context.Context, l config.Log, w feeder.Witness, c *http.Client, interval time.Duration) error {
	if !wireOn() {
		return pixelbt.FeedLog(ctx, l, w, c, interval)
	}
	wireRecord("wire.feeder", l)
	return nil
}

//wsym:replace github.com/transparency-dev/witness/internal/feeder/rekor.FeedLog
func verifWireRekor(ctx context.Context, l config.Log, w feeder.Witness, c *http.Client, interval time.Duration) error {
	if !wireOn() {
		return rekor.FeedLog(ctx, l, w, c, interval)
	}
	wireRecord("wire.feeder", l)
	return nil
}

//wsym:replace github.com/transparency-dev/witness/internal/feeder/tiles.FeedLog
func verifWireTiles(ctx context.Context, l config.Log, w feeder.Witness, c *http.Client, interval time.Duration) error {
	if !wireOn() {
		return tiles.FeedLog(ctx, l, w, c, interval)
	}
	wireRecord("wire.feeder", l)
	return nil
}

//wsym:replace github.com/transparency-dev/witness/internal/feeder/bastion.FeedBastion
func verifWireBastion(ctx context.Context, c bastion.Config, w feeder.Witness) error {
	if !wireOn() {
		return bastion.FeedBastion(ctx, c, w)
	}
	for _, l := range c.Logs {
		wireRecord("wire.bastion", l)
	}
	return nil
}

//wsym:replace github.com/transparency-dev/witness/internal/distribute/rest.NewDistributor
func verifWireNewDistributor(baseURL string, client *http.Client, logs []config.Log, witnessV note.Verifier, wit rest.Witness) (*rest.Distributor, error) {
	if !wireOn() {
		return rest.NewDistributor(baseURL, client, logs, witnessV, wit)
	}
	for _, l := range logs {
		wireRecord("wire.distributor", l)
	}
	return &rest.Distributor{}, nil
}

// a timer channel that never fires within the analysis
//
//wsym:replace time.After
func verifTimeAfter(d time.Duration) <-chan time.Time { return nil }

//wsym:replace github.com/gorilla/mux.NewRouter
func verifMuxNewRouter() *mux.Router { return &mux.Router{} }

//wsym:replace (*github.com/gorilla/mux.Router).HandleFunc
func verifMuxHandleFunc(r *mux.Router, path string, f func(http.ResponseWriter, *http.Request)) *mux.Route {
	rt.Log(rt.Ev{K: "wire.route", B: [][]byte{[]byte(path)}})
	return &mux.Route{}
}

//wsym:replace (*github.com/gorilla/mux.Route).Methods
func verifMuxMethods(r *mux.Route, methods ...string) *mux.Route { return r }

//wsym:replace (*net/http.Server).Serve
func verifHTTPServe(s *http.Server, l net.Listener) error {
	rt.Log(rt.Ev{K: "wire.serve"})
	return nil
}

//wsym:replace (*net/http.Server).Shutdown
func verifHTTPShutdown(s *http.Server, ctx context.Context) error { return nil }

// VerifWire: every component Main starts is handed, for each configured log, a description
// whose ID is the ID of that log's own origin - the ID under which the witness files it.
func VerifWire() {
	rt.InstallMetrics()
	n := rt.Param("logs", 2)
	verifWireCfg = LogConfig{}
	var origins []string
	var fed []bool
	for i := 0; i < n; i++ {
		origin, pk, url := rt.Str("origin"), rt.Str("pk"), rt.Str("url")
		f := None
		if rt.Bool("has.feeder") {
			f = SumDB
		}
		verifWireCfg.Logs = append(verifWireCfg.Logs, LogInfo{Origin: origin, PublicKey: pk, URL: url, Feeder: f})
		origins = append(origins, origin)
		fed = append(fed, f != None)
	}
	wk := rt.U64("wkey")
	op := OperatorConfig{
		WitnessKeys:            []note.Signer{&rt.Signer{K: wk, N: "witness"}},
		WitnessVerifier:        &rt.Verifier{K: wk, N: "witness"},
		BastionAddr:            "bastion.example:443",
		BastionKey:             ed25519.PrivateKey(rt.Bytes("bastionkey")),
		RestDistributorBaseURL: "https://distributor.example",
		FeedInterval:           time.Minute,
	}
	rt.ResetEvents()
	err := Main(&rt.Ctx{}, op, inmemory.NewPersistence(), nil, &http.Client{})
	rt.Cover(err != nil, "wire/configuration-refused")
	if err != nil {
		return
	}
	rt.Cover(true, "wire/started")
	evs := rt.Events
	for _, kind := range []string{"wire.feeder", "wire.bastion", "wire.distributor"} {
		seen := make([]int, n)
		for _, e := range evs {
			if e.K != kind {
				continue
			}
			id, origin := string(e.B[0]), string(e.B[1])
			rt.Assert(id == rt.LogID(origin), "C12/component-id-is-the-id-of-the-origin-it-was-given")
			hit := false
			for i := range origins {
				if origin == origins[i] {
					hit = true
					seen[i]++
				}
			}
			rt.Assert(hit, "C12/component-origin-is-a-configured-origin")
		}
		for i := range origins {
			want := 1
			if kind == "wire.feeder" && !fed[i] {
				want = 0
			}
			// (origins are pairwise distinct here: AsLogMap refused the configuration otherwise)
			rt.Assert(seen[i] == want, "C12/every-configured-log-reaches-every-component-once")
		}
	}
	rt.Assert(rt.Count("wire.serve") == 1, "C12/http-server-started")
}
