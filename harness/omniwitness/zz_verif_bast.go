//go:build verifsym

package omniwitness

import (
	"fmt"
	"net/http"

	"github.com/transparency-dev/witness/internal/config"
	"github.com/transparency-dev/witness/internal/feeder/bastion"
	"github.com/transparency-dev/witness/internal/persistence"
	"github.com/transparency-dev/witness/internal/persistence/inmemory"
	psql "github.com/transparency-dev/witness/internal/persistence/sql"
	rt "github.com/transparency-dev/witness/internal/verifrt"
	"github.com/transparency-dev/witness/internal/witness"
	"golang.org/x/mod/sumdb/note"
)

// verifDeployment wires a witness, its adapter and the bastion handler from ONE symbolic
// configuration through the repository's own constructors (AsLogMap, config.NewLog), so that
// the two log-ID derivations meet.
type verifDeployment struct {
	origins, pks []string
	keys         []uint64
	ids          []string
	wk           uint64
	witName      string
	w            *witness.Witness
	store        persistence.LogStatePersistence
	handler      http.Handler
	stored       []bool
	prev         [][]byte
}

func verifDeploy(n int) *verifDeployment {
	rt.InstallMetrics()
	d := &verifDeployment{}
	var lc LogConfig
	var logs []config.Log
	for i := 0; i < n; i++ {
		origin, pk := rt.Str("origin"), rt.Str("pk")
		lc.Logs = append(lc.Logs, LogInfo{Origin: origin, PublicKey: pk})
		d.origins = append(d.origins, origin)
		d.pks = append(d.pks, pk)
	}
	known, err := lc.AsLogMap()
	if err != nil {
		rt.Cut("configuration refused at start-up (colliding ids or bad key)")
	}
	for i := 0; i < n; i++ {
		l, err := config.NewLog(d.origins[i], d.pks[i], "https://log.example")
		if err != nil {
			rt.Cut("configuration refused at start-up")
		}
		verifConfigAsserts(known, l, d.pks[i])
		logs = append(logs, l)
		d.ids = append(d.ids, l.ID)
		d.keys = append(d.keys, rt.UFU64("keyOfText", d.pks[i]))
		rt.RegisterKey(d.keys[i], rt.UFStr("nameOfText", d.pks[i]))
	}
	d.wk, d.witName = rt.U64("wkey"), rt.Str("witName")
	for _, k := range d.keys {
		rt.Assume(k != d.wk)
	}
	rt.RegisterKey(d.wk, d.witName)
	if rt.Param("store", 0) == 1 {
		d.store = psql.NewPersistence(rt.NewDB(1))
	} else {
		d.store = inmemory.NewPersistence()
	}
	w, err := witness.New(witness.Opts{Persistence: d.store, Signers: []note.Signer{&rt.Signer{K: d.wk, N: d.witName}}, KnownLogs: known})
	if err != nil {
		rt.Unsupported("witness.New failed")
	}
	d.w = w
	for i := range d.ids {
		st := rt.Bool("stored")
		var b []byte
		if st {
			b = rt.Bytes("prevRaw")
			wo, err := d.store.WriteOps(d.ids[i])
			if err != nil || wo.Set(b) != nil {
				rt.Unsupported("preload failed")
			}
			_ = wo.Close()
		}
		d.stored = append(d.stored, st)
		d.prev = append(d.prev, b)
	}
	d.handler = bastion.VerifNewHandler(witnessAdapter{w: w}, logs, &rt.Verifier{K: d.wk, N: d.witName})
	return d
}

// verifConfigAsserts: every component agrees on a log's identity and key. The origin a component
// holds for an ID is an origin whose ID it is, the witness map has an entry under the ID the
// others use, and both sides verify that log's checkpoints with the key configured for it.
func verifConfigAsserts(known map[string]witness.LogInfo, l config.Log, pk string) {
	if !(rt.Prop("C12") || rt.Prop("C02")) {
		return
	}
	rt.Assert(rt.LogID(l.Origin) == l.ID, "C12/feeder-side-id-is-id-of-its-origin")
	wi, ok := known[l.ID]
	rt.Assert(ok, "C12/witness-files-the-log-under-the-shared-id")
	if !ok {
		return
	}
	rt.Assert(rt.LogID(wi.Origin) == l.ID, "C12/witness-origin-matches-its-id")
	rt.Assert(wi.Origin == l.Origin, "C12/witness-and-feeders-expect-the-same-origin")
	want := rt.UFU64("keyOfText", pk)
	wv, isModel := wi.SigV.(*rt.Verifier)
	rt.Assert(isModel && wv.K == want, "C02/witness-verifies-with-the-key-configured-for-that-log")
	fv, isModel := l.Verifier.(*rt.Verifier)
	rt.Assert(isModel && fv.K == want, "C02/feeders-verify-with-the-key-configured-for-that-log")
}

// VerifConfig is H-CFG: the repository's two configuration builders (LogConfig.AsLogMap for the
// witness, config.NewLog for feeders, bastion and distributor) on one arbitrary configuration
// list, in the string domain so that any text processing of origins and keys is exact.
func VerifConfig() {
	n := rt.Param("logs", 2)
	var lc LogConfig
	var origins, pks []string
	for i := 0; i < n; i++ {
		origin, pk := rt.Str("origin"), rt.Str("pk")
		lc.Logs = append(lc.Logs, LogInfo{Origin: origin, PublicKey: pk})
		origins, pks = append(origins, origin), append(pks, pk)
	}
	known, err := lc.AsLogMap()
	rt.Cover(err != nil, "cfg/refused-at-start-up")
	if err != nil {
		return
	}
	rt.Assert(len(known) == n, "C12/one-witness-entry-per-configured-log")
	for i := 0; i < n; i++ {
		l, err := config.NewLog(origins[i], pks[i], "https://log.example")
		if err != nil {
			rt.Assert(false, "C12/feeder-side-refuses-a-configuration-the-witness-accepted")
			return
		}
		verifConfigAsserts(known, l, pks[i])
	}
	rt.Cover(true, "cfg/accepted")
}

// VerifBastion is H-BAST: one request through the real ServeHTTP, handleUpdate, witnessAdapter,
// Witness.Update and store, from an arbitrary stored state.
func VerifBastion() {
	d := verifDeploy(rt.Param("logs", 2))
	malformed := rt.Bool("body.malformed")
	body := &rt.PartsReader{Malformed: malformed}
	var oldSize uint64
	var cp []byte
	var proof [][]byte
	if !malformed {
		oldSize, cp = rt.U64("oldSize"), rt.Bytes("cp")
		proof = witness.VerifProof(rt.Param("maxproof", 1))
		body.Old, body.CP, body.Proof = oldSize, cp, proof
	}
	req := &http.Request{RemoteAddr: "bastion", Body: body}
	rec := &rt.RecWriter{}
	rt.ResetEvents()
	d.handler.ServeHTTP(rec, req)
	evs := rt.Events

	status := rec.Status
	verifBastionReplayFacts(d, malformed, oldSize, cp, proof, rec)
	rt.Assert(rec.WroteHeaders == 1, "C10/exactly-one-status")
	okSet := status == 200 || status == 400 || status == 403 || status == 404 || status == 409 || status == 422 || status == 429 || status == 500
	rt.Assert(okSet, "C10/status-is-documented")
	rt.Assert(body.Closed, "C10/body-closed")

	allowEv, consulted := rt.Find("limiter.allow", 0)
	rt.Assert(consulted && rt.Count("limiter.allow") == 1, "C10/rate-limit-consulted-exactly-once")
	if !consulted {
		return
	}
	// the limiter is asked before anything of the request is processed
	firstEv := rt.Events[0]
	for _, e := range evs {
		if e.K != "Inc" {
			firstEv = e
			break
		}
	}
	rt.Assert(firstEv.K == "limiter.allow", "C10/rate-limit-consulted-before-processing")
	nParse := rt.Count("Parse")
	if allowEv.U[0] == 0 {
		rt.Assert(status == 429 && nParse == 0 && rt.Count("Sign") == 0, "C10/over-rate-429-unprocessed")
		rt.Cover(true, "bast/429")
		return
	}
	if malformed {
		rt.Assert(status == 400 && nParse == 0, "C10/malformed-body-400")
		rt.Cover(true, "bast/400-malformed")
		return
	}
	if !rt.UFBool("hasNewline", cp) {
		rt.Assert(status == 400, "C10/checkpoint-without-second-line-400")
		return
	}
	origin := rt.UFStr("firstLine", cp)
	li := -1
	for i := range d.ids {
		if rt.LogID(origin) == d.ids[i] {
			li = i
		}
	}
	if li < 0 {
		rt.Assert(status == 404 && nParse == 0, "C10/unknown-origin-404")
		rt.Cover(true, "bast/404")
		return
	}
	// NB: two configured origins with the same ID are refused at start-up, so li is unique
	key := d.keys[li]
	if !rt.Valid(cp, d.origins[li], key, nil) {
		rt.Assert(status == 403, "C10/no-valid-log-signature-403")
		rt.Cover(status == 403, "bast/403")
		return
	}
	signFailed := rt.Count("SignFail") > 0 || rt.SigLines(cp)+1 > 100
	if !d.stored[li] {
		if !signFailed && oldSize == 0 && len(proof) == 0 {
			rt.Assert(status == 200, "C10/first-use-200")
		}
		verifBody200(d, li, cp, rec, evs)
		return
	}
	prev := d.prev[li]
	if !rt.Valid(prev, d.origins[li], key, nil) {
		rt.Assert(status == 500, "C10/unreadable-stored-checkpoint-500")
		return
	}
	ns, ps := rt.CpSize(cp), rt.CpSize(prev)
	// the handler parses the checkpoint it got back under the witness key; a stored checkpoint
	// that does not carry this witness's signature cannot be reported on
	witOK := rt.Valid(prev, d.origins[li], d.wk, nil)
	switch {
	case oldSize > ns:
		if witOK {
			rt.Assert(status == 400 && len(rec.Body) == 0, "C10/old-size-above-checkpoint-400")
			rt.Cover(true, "bast/400-oldsize")
		}
	case oldSize != ps:
		if witOK {
			rt.Assert(status == 409 && rt.HeaderGet(rec.H, "Content-Type") == "text/x.tlog.size" && string(rec.Body) == fmt.Sprintf("%d\n", ps), "C10/stale-409-with-true-size")
			rt.Cover(true, "bast/409-stale")
		}
	case ns == ps && !rt.Eq(rt.CpHash(cp), rt.CpHash(prev)):
		if witOK {
			rt.Assert(status == 409 && rt.HeaderGet(rec.H, "Content-Type") != "text/x.tlog.size", "C10/root-mismatch-409")
			rt.Cover(true, "bast/409-root")
		}
	case ps == 0 && ns > 0:
		// carve-out (C08)
	default:
		var verdict bool
		if ns == ps {
			verdict = len(proof) == 0
		} else {
			verdict = rt.VCVerdict(ps, ns, len(proof), rt.ProofTerm(proof), rt.CpHash(prev), rt.CpHash(cp))
		}
		if !verdict {
			if witOK {
				rt.Assert(status == 422, "C10/bad-proof-422")
				rt.Cover(true, "bast/422")
			}
		} else {
			if !signFailed {
				rt.Assert(status == 200, "C10/accepted-200")
				rt.Cover(status == 200, "bast/200")
			}
			verifBody200(d, li, cp, rec, evs)
		}
	}
	if status == 200 {
		verifBody200(d, li, cp, rec, evs)
	}
}

// verifBody200: a 200 means the checkpoint was accepted and the body is the witness's
// cosignature line over the submitted checkpoint.
func verifBody200(d *verifDeployment, li int, cp []byte, rec *rt.RecWriter, evs []rt.Ev) {
	if rec.Status != 200 {
		return
	}
	var signed []byte
	n := 0
	for _, e := range evs {
		if e.K == "Sign" {
			n++
			signed = e.B[1]
			rt.Assert(rt.Eq(e.B[0], cp), "C10/200-only-for-the-submitted-checkpoint")
		}
	}
	rt.Assert(n == 1, "C10/200-only-when-accepted")
	if n != 1 {
		return
	}
	got, err := d.w.GetCheckpoint(d.ids[li])
	rt.Assert(err == nil && rt.Eq(got, signed), "C10/200-means-stored")
	rt.Assert(rt.HasSig(signed, d.wk) && rt.Eq(rt.NoteText(signed), rt.NoteText(cp)), "C10/cosignature-over-submitted-text")
	want := fmt.Sprintf("— %s %s\n", d.witName, rt.UFStr("sigB64", signed, d.wk))
	rt.Assert(string(rec.Body) == want, "C10/body-is-the-witness-signature-line")
}

// verifBastionReplayFacts names the facts from which the native replay
// (native/omniwitness TestReplayBastion) rebuilds the request, the witness state and the
// configuration with real keys, and declares one replayable cover witness per status class.
func verifBastionReplayFacts(d *verifDeployment, malformed bool, oldSize uint64, cp []byte, proof [][]byte, rec *rt.RecWriter) {
	if rt.Param("replay", 1) != 1 {
		return
	}
	allowEv, consulted := rt.Find("limiter.allow", 0)
	if !consulted {
		return
	}
	rt.Name("b.allow", allowEv.U[0] == 1)
	rt.Name("b.malformed", malformed)
	rt.Name("b.status", uint64(rec.Status))
	rt.Name("b.sizeBody", rt.HeaderGet(rec.H, "Content-Type") == "text/x.tlog.size")
	rt.Name("b.hasBody", len(rec.Body) > 0)
	small := true
	li := -1
	if !malformed && allowEv.U[0] == 1 {
		rt.Name("b.hasNewline", rt.UFBool("hasNewline", cp))
		rt.Name("b.oldSize", oldSize)
		rt.Name("b.proofLen", uint64(len(proof)))
		small = small && oldSize <= 12
		origin := rt.UFStr("firstLine", cp)
		for i := range d.ids {
			if rt.LogID(origin) == d.ids[i] {
				li = i
			}
		}
		rt.Name("b.known", li >= 0)
		if li >= 0 {
			rt.Name("b.stored", d.stored[li])
			rt.Name("b.nextValid", rt.Valid(cp, d.origins[li], d.keys[li], nil))
			rt.Name("b.nextSize", rt.CpSize(cp))
			small = small && rt.CpSize(cp) <= 9 && rt.SigLines(cp) <= 3
			if d.stored[li] {
				prev := d.prev[li]
				rt.Name("b.prevValid", rt.Valid(prev, d.origins[li], d.keys[li], nil))
				rt.Name("b.prevWitOK", rt.Valid(prev, d.origins[li], d.wk, nil))
				rt.Name("b.prevSize", rt.CpSize(prev))
				rt.Name("b.sameRoot", rt.Eq(rt.CpHash(cp), rt.CpHash(prev)))
				rt.Name("b.vcOK", rt.VCVerdict(rt.CpSize(prev), rt.CpSize(cp), len(proof), rt.ProofTerm(proof), rt.CpHash(prev), rt.CpHash(cp)))
				small = small && rt.CpSize(prev) <= 9 && rt.SigLines(prev) <= 5
			}
		}
	}
	ok := small && rt.Count("SignFail") == 0
	rt.Prefer(ok) // violation witnesses: ask for a model the native replay can rebuild
	st := rec.Status
	rt.Cover(ok && st == 429, "replay/b-429")
	rt.Cover(ok && st == 400 && malformed, "replay/b-400-malformed")
	rt.Cover(ok && st == 404, "replay/b-404")
	rt.Cover(ok && st == 403, "replay/b-403")
	rt.Cover(ok && st == 200 && li >= 0 && !d.stored[li], "replay/b-200-first-use")
	rt.Cover(ok && st == 200 && li >= 0 && d.stored[li], "replay/b-200-update")
	rt.Cover(ok && st == 400 && !malformed && li >= 0, "replay/b-400-oldsize")
	rt.Cover(ok && st == 409 && rt.HeaderGet(rec.H, "Content-Type") == "text/x.tlog.size", "replay/b-409-stale")
	rt.Cover(ok && st == 409 && rt.HeaderGet(rec.H, "Content-Type") != "text/x.tlog.size", "replay/b-409-root")
	rt.Cover(ok && st == 422, "replay/b-422")
	rt.Cover(ok && st == 500 && li >= 0 && d.stored[li], "replay/b-500-stored")
}
