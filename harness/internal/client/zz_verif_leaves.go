//go:build verifsym

package client

import (
	rt "github.com/transparency-dev/witness/internal/verifrt"
)

// VerifDataToLeaves: splitting arbitrary tile data into leaves never panics and loses no byte
// (byte-array domain: one 8-bit variable per input byte).
func VerifDataToLeaves() {
	n := rt.Choose(rt.Param("maxlen", 6) + 1)
	data := rt.ByteArray("data", n)
	leaves := dataToLeaves(data)
	total := 0
	for _, l := range leaves {
		total += len(l)
	}
	rt.Assert(len(leaves) >= 1, "C19/datatoleaves-at-least-one")
	rt.Assert(total <= n, "C19/datatoleaves-no-invented-bytes")
	rt.Cover(len(leaves) == 2, "leaves/two")
}
