//go:build verifsym

package rest

import (
	"context"
	"errors"
	"fmt"
	"net/http"

	"github.com/transparency-dev/witness/internal/config"
	rt "github.com/transparency-dev/witness/internal/verifrt"
)

var errNoCP = errors.New("harness: witness has no checkpoint / failed")

type distStub struct {
	ids   []string
	raws  [][]byte // per log id: nil when the witness answered with an error
	asked []string
}

func (s *distStub) GetLatestCheckpoint(ctx context.Context, logID string) ([]byte, error) {
	s.asked = append(s.asked, logID)
	for i, id := range s.ids {
		if id == logID {
			if s.raws[i] == nil {
				return nil, errNoCP
			}
			return s.raws[i], nil
		}
	}
	return nil, errNoCP
}

// VerifDistribute is H-DIST: one real DistributeOnce over up to n logs with arbitrary
// witness answers and arbitrary distributor answers.
func VerifDistribute() {
	rt.InstallMetrics()
	n := rt.Param("logs", 2)
	base := rt.Str("baseURL")
	wk := rt.U64("wkey")
	witName := rt.Str("witName")
	witV := &rt.Verifier{K: wk, N: witName}
	stub := &distStub{}
	var logs []config.Log
	var keys []uint64
	for i := 0; i < n; i++ {
		id, origin, key := rt.Str("id"), rt.Str("origin"), rt.U64("logkey")
		for _, o := range stub.ids {
			rt.Assume(id != o)
		}
		rt.Assume(key != wk)
		// the key's name is its own: several logs may share a key or a key name
		logs = append(logs, config.Log{ID: id, Origin: origin, Verifier: &rt.Verifier{K: key, N: rt.Str("keyname")}})
		keys = append(keys, key)
		stub.ids = append(stub.ids, id)
		if rt.Bool("witness.has") {
			stub.raws = append(stub.raws, rt.Bytes("wRaw"))
		} else {
			stub.raws = append(stub.raws, nil)
		}
	}
	d, err := NewDistributor(base, &http.Client{}, logs, witV, stub)
	if err != nil {
		rt.Unsupported("NewDistributor failed")
	}
	rt.ResetEvents()
	derr := d.DistributeOnce(context.Background())
	evs := rt.Events

	// every log is attempted, in order, regardless of earlier failures
	rt.Assert(len(stub.asked) == n, "C15/every-log-attempted")
	if len(stub.asked) == n {
		for i := range logs {
			rt.Assert(stub.asked[i] == logs[i].ID, "C15/asks-witness-for-that-log")
		}
	}
	// collect the requests in order
	var dos []rt.Ev
	for _, e := range evs {
		if e.K == "http.Do" {
			dos = append(dos, e)
		}
	}
	di := 0
	failures := 0
	for i := range logs {
		raw := stub.raws[i]
		eligible := raw != nil && rt.Valid(raw, logs[i].Origin, keys[i], []uint64{wk}) && rt.HasSig(raw, wk)
		if !eligible {
			failures++
			continue
		}
		// url.Parse / NewRequest may fail in the model (they cannot for these inputs in reality): skip those paths
		if rt.Count("urlfail") > 0 {
			return
		}
		if di >= len(dos) {
			rt.Assert(false, "C15/verified-checkpoint-is-pushed")
			return
		}
		e := dos[di]
		di++
		want := base + fmt.Sprintf(HTTPCheckpointByWitness, logs[i].ID, rt.PathEscape(witName))
		rt.Assert(string(e.B[0]) == "PUT", "C15/method-is-put")
		rt.Assert(string(e.B[1]) == want, "C15/path-names-log-id-and-witness-name")
		rt.Assert(rt.Eq(e.B[2], raw), "C15/body-is-exactly-the-witness-bytes")
		rt.Cover(true, "dist/pushed")
	}
	rt.Assert(di == len(dos), "C15/nothing-pushed-unverified")
	// per-log accounting against the distributor's actual answers
	var resps []rt.Ev
	for _, e := range evs {
		if e.K == "http.resp" {
			resps = append(resps, e)
		}
	}
	good := 0
	if len(resps) == len(dos) {
		for _, r := range resps {
			if r.U[0] == 1 && r.U[1] == 200 && r.U[2] == 0 && string(r.B[0]) == "PUT" {
				good++
			}
		}
	}
	rt.Assert((derr == nil) == (failures == 0 && good == n), "C15/error-iff-some-log-failed")
	nInc := 0
	for _, e := range evs {
		if e.K == "Inc" && string(e.B[0]) == "distribute_rest_success" {
			nInc++
		}
	}
	rt.Assert(nInc == good, "C15/success-counted-only-for-200-after-put")
	rt.Cover(derr == nil && n > 1, "dist/all-succeeded")
	rt.Cover(derr != nil && good > 0, "dist/partial-failure")
}
