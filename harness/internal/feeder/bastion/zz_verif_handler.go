//go:build verifsym

package bastion

import (
	"errors"
	"io"
	"net/http"

	"github.com/transparency-dev/witness/internal/config"
	"github.com/transparency-dev/witness/internal/feeder"
	rt "github.com/transparency-dev/witness/internal/verifrt"
	"golang.org/x/mod/sumdb/note"
	"golang.org/x/time/rate"
)

// VerifNewHandler builds the unexported add-checkpoint handler exactly as FeedBastion does.
func VerifNewHandler(w feeder.Witness, logs []config.Log, witV note.Verifier) http.Handler {
	initMetrics()
	h := &addHandler{
		w:           w,
		logs:        make(map[string]config.Log),
		witVerifier: witV,
		limiter:     rate.NewLimiter(1, 1),
	}
	for _, l := range logs {
		h.logs[l.ID] = l
	}
	return h
}

var errMalformedBody = errors.New("model: malformed add-checkpoint body")

// parseBodyContract stands in for parseBody when the request body is given by its parts
// (algebra domain): C11 shows that a body written from (old size, proof, checkpoint) parses
// back to exactly those, and that anything else is refused.
//
//wsym:replace github.com/transparency-dev/witness/internal/feeder/bastion.parseBody
func parseBodyContract(r io.Reader) (uint64, [][]byte, []byte, error) {
	pr, ok := r.(*rt.PartsReader)
	if !ok {
		return parseBody(r)
	}
	if pr.Malformed {
		return 0, nil, nil, errMalformedBody
	}
	return pr.Old, pr.Proof, pr.CP, nil
}
