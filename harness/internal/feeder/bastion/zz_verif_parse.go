//go:build verifsym

package bastion

import (
	"encoding/base64"
	"io"
	"strings"

	rt "github.com/transparency-dev/witness/internal/verifrt"
)

// VerifParseBody exposes the unexported parser to harnesses in other packages.
func VerifParseBody(r io.Reader) (uint64, [][]byte, []byte, error) { return parseBody(r) }

// VerifParseBodyRoundTrip: a body written in the documented format parses back to
// exactly the old size, the hashes in order, and the checkpoint bytes.
func VerifParseBodyRoundTrip() {
	// every old size in 0..2^64-1 is the value of some decimal digit string that fits 64 bits;
	// the digit string is the primary symbolic input (leading zeros included)
	d := rt.Str("digits")
	rt.Assume(rt.InRe(d, "digits+") && rt.FitsU64(d))
	rt.AssumeNoCRLF(d)
	n := rt.ToInt(d)
	// proof of kmin..k hashes (the property's range is 0..64; a run may look at its far end only)
	kmin := rt.Param("kmin", 0)
	k := kmin + rt.Choose(rt.Param("k", 2)-kmin+1)
	var hs [][]byte
	for i := 0; i < k; i++ {
		if i > 0 && rt.Param("samehash", 0) == 1 {
			// long-proof run: one arbitrary hash repeated (the line count is what is explored;
			// 64 independent hashes make each query ~100x more expensive)
			hs = append(hs, hs[0])
			continue
		}
		h := rt.Bytes("h")
		rt.Assume(string(h) != "" && rt.LenLE(string(h), 64)) // hashes of 1..64 bytes
		hs = append(hs, h)
	}
	cp := rt.Bytes("cp")
	body := "old " + d + "\n"
	for _, h := range hs {
		body += base64.StdEncoding.EncodeToString(h) + "\n"
	}
	body += "\n" + string(cp)
	rt.Assume(rt.LenLE(body, rt.Param("maxbody", 4000)))
	gotN, gotP, gotCP, err := parseBody(&rt.StrReader{S: body})
	rt.Cover(err == nil && k > 0, "parse/roundtrip-with-proof")
	rt.Assert(err == nil, "C11/roundtrip-accepted")
	if err != nil {
		return
	}
	rt.Assert(gotN == n, "C11/roundtrip-old-size")
	rt.Assert(len(gotP) == k, "C11/roundtrip-proof-length")
	if len(gotP) == k {
		for i := range hs {
			rt.Assert(rt.Eq(gotP[i], hs[i]), "C11/roundtrip-proof-hash")
		}
	}
	rt.Assert(rt.Eq(gotCP, cp), "C11/roundtrip-checkpoint")
}

func trimCR(s string) string { return strings.TrimSuffix(s, "\r") }

// VerifParseBodyRefusal: whatever bytes arrive, success implies that the body really
// has the documented shape (nothing is "partly understood").
func VerifParseBodyRefusal() {
	body := rt.Str("body")
	rt.Assume(rt.LenLE(body, rt.Param("maxbody", 4000)))
	n, p, cp, err := parseBody(&rt.StrReader{S: body})
	rt.Cover(err == nil && len(p) == 1, "parse/accepts-one-proof-line")
	rt.Cover(err != nil, "parse/refuses")
	if err != nil {
		return
	}
	line, rest, found := strings.Cut(body, "\n")
	rt.Assert(found, "C11/refusal-old-line-terminated")
	line = trimCR(line)
	rt.Name("sizeline", line)
	digits, isOld := strings.CutPrefix(line, "old ")
	rt.Assert(isOld && rt.InRe(digits, "digits+") && rt.FitsU64(digits), "C11/refusal-old-line-well-formed")
	if isOld && rt.InRe(digits, "digits+") && rt.FitsU64(digits) {
		rt.Assert(n == rt.ToInt(digits), "C11/refusal-old-size-value")
	}
	for i := 0; i < len(p); i++ {
		line, rest, found = strings.Cut(rest, "\n")
		line = trimCR(line)
		d, derr := base64.StdEncoding.DecodeString(line)
		rt.Assert(found && line != "" && derr == nil && rt.Eq(d, p[i]), "C11/refusal-proof-line-is-base64")
	}
	line, rest, found = strings.Cut(rest, "\n")
	rt.Assert(found && trimCR(line) == "", "C11/refusal-blank-separator-present")
	rt.Assert(string(cp) == rest, "C11/refusal-checkpoint-is-the-rest")
}

// VerifParseBodyHashLengths: the round trip for two proof hashes of EVERY pair of lengths
// 1..64 (concrete lengths, arbitrary contents), so that buffer- or chunk-size effects of the
// line reader show up at the exact lengths where they bite.
func VerifParseBodyHashLengths() {
	max := rt.Param("maxhash", 64)
	var hs [][]byte
	for i := 0; i < 2; i++ {
		h := rt.Bytes("h")
		rt.AssumeLen(string(h), rt.Choose(max)+1)
		hs = append(hs, h)
	}
	cp := rt.Bytes("cp")
	body := "old 7\n"
	for _, h := range hs {
		body += base64.StdEncoding.EncodeToString(h) + "\n"
	}
	body += "\n" + string(cp)
	rt.Assume(rt.LenLE(string(cp), 3000))
	gotN, gotP, gotCP, err := parseBody(&rt.StrReader{S: body})
	rt.Cover(err == nil, "parse/lengths-roundtrip")
	rt.Assert(err == nil, "C11/lengths-accepted")
	if err != nil {
		return
	}
	rt.Assert(gotN == 7 && len(gotP) == 2, "C11/lengths-old-size-and-proof-length")
	if len(gotP) == 2 {
		rt.Assert(rt.Eq(gotP[0], hs[0]) && rt.Eq(gotP[1], hs[1]), "C11/lengths-proof-hashes")
	}
	rt.Assert(rt.Eq(gotCP, cp), "C11/lengths-checkpoint")
}
