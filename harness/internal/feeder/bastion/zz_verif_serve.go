//go:build verifsym

package bastion

import (
	"context"
	"errors"
	"net/http"

	"github.com/transparency-dev/witness/internal/config"
	rt "github.com/transparency-dev/witness/internal/verifrt"
	"github.com/transparency-dev/witness/internal/witness"
)

var errOther = errors.New("harness: some other witness error")

// arbWitness answers Update with any of the documented outcomes.
type arbWitness struct{}

func (arbWitness) GetLatestCheckpoint(ctx context.Context, logID string) ([]byte, error) {
	return nil, errOther
}
func (arbWitness) Update(ctx context.Context, logID string, oldSize uint64, newCP []byte, proof [][]byte) ([]byte, error) {
	var err error
	switch rt.Choose(8) {
	case 0:
	case 1:
		err = witness.ErrCheckpointStale
	case 2:
		err = witness.ErrUnknownLog
	case 3:
		err = witness.ErrNoValidSignature
	case 4:
		err = witness.ErrOldSizeInvalid
	case 5:
		err = witness.ErrInvalidProof
	case 6:
		err = witness.ErrRootMismatch
	default:
		err = errOther
	}
	if rt.Bool("w.returns.bytes") {
		return rt.Bytes("w.trusted"), err
	}
	return nil, err
}

// VerifServeArbitraryBody: arbitrary bytes sent to the endpoint (String domain, real parseBody)
// and arbitrary witness answers never make the handler panic; it answers exactly once with a
// documented status code.
func VerifServeArbitraryBody() {
	rt.InstallMetrics()
	origin, id := rt.Str("origin"), rt.Str("id")
	logs := []config.Log{{ID: id, Origin: origin, Verifier: &rt.Verifier{K: rt.U64("logkey"), N: rt.Str("keyname")}}}
	h := VerifNewHandler(arbWitness{}, logs, &rt.Verifier{K: rt.U64("wkey"), N: "witness"})
	body := rt.Str("body")
	rt.Assume(rt.LenLE(body, rt.Param("maxbody", 4000)))
	rd := &rt.StrReader{S: body}
	rec := &rt.RecWriter{}
	h.ServeHTTP(rec, &http.Request{RemoteAddr: "bastion", Body: rd})
	st := rec.Status
	rt.Assert(rec.WroteHeaders == 1, "C19/endpoint-answers-exactly-once")
	rt.Assert(st == 200 || st == 400 || st == 403 || st == 404 || st == 409 || st == 422 || st == 429 || st == 500, "C19/endpoint-status-documented")
	rt.Assert(rd.Closed, "C19/endpoint-closes-body")
	rt.Cover(st == 200, "serve/200")
	rt.Cover(st == 400, "serve/400")
	rt.Cover(st == 500, "serve/500")
}
