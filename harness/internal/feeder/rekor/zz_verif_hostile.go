//go:build verifsym

package rekor

import (
	"context"
	"errors"
	"net/http"
	"os"

	"github.com/transparency-dev/witness/internal/config"
	rt "github.com/transparency-dev/witness/internal/verifrt"
)

var errStub = errors.New("harness: witness refused")

// hostileWitness answers like any witness might: a latest checkpoint or none, an accept or a refusal.
type hostileWitness struct {
	has    bool
	latest []byte
}

func (w *hostileWitness) GetLatestCheckpoint(ctx context.Context, logID string) ([]byte, error) {
	if !w.has {
		return nil, os.ErrNotExist
	}
	return w.latest, nil
}

func (w *hostileWitness) Update(ctx context.Context, logID string, oldSize uint64, newCP []byte, proof [][]byte) ([]byte, error) {
	if rt.Bool("w.update.fails") {
		return nil, errStub
	}
	return rt.Bytes("w.cosigned"), nil
}

// VerifFeedHostile: one real feed cycle of the Rekor feeder (FeedLog, fetchCP, fetchProof, getJSON
// and the real feeder.FeedOnce) against a log server whose answers are arbitrary: any status, any
// body, and - where the body is JSON - any document (the json.Unmarshal contract leaves an
// arbitrary value of the target type: null entries, absent members, lists of 0..2 elements).
// The engine reports every reachable Go panic as a violation; the cycle must end with a result
// or an error.
func VerifFeedHostile() {
	origin, key := rt.Str("origin"), rt.U64("logkey")
	l := config.Log{ID: rt.Str("id"), Origin: origin, Verifier: &rt.Verifier{K: key, N: rt.UFStr("keyName", key)}, URL: rt.Str("url")}
	w := &hostileWitness{has: rt.Bool("w.has"), latest: rt.Bytes("latestRaw")}
	rt.ResetEvents()
	err := FeedLog(&rt.Ctx{}, l, w, &http.Client{}, 0)
	rt.Cover(err == nil, "rekor/cycle-succeeds")
	rt.Cover(err != nil, "rekor/cycle-fails")
	rt.Cover(rt.Count("http.Do") >= 2, "rekor/proof-fetched")
	rt.Assert(true, "C19/rekor-cycle-returns")
}
