//go:build verifsym

package feeder

import (
	"context"
	"errors"
	"os"

	"github.com/transparency-dev/formats/log"
	rt "github.com/transparency-dev/witness/internal/verifrt"
)

var errTransient = errors.New("harness: transient failure")

// stubWitness answers arbitrarily and records every call with the attempt it belongs to.
type stubWitness struct {
	latest [][]byte // per attempt: what GetLatestCheckpoint answered (nil = not exist / error)
	kind   []int    // 0 = not exist, 1 = bytes, 2 = error
	upd    []updCall
}

type updCall struct {
	attempt int
	logID   string
	oldSize uint64
	cp      []byte
	proof   [][]byte
	ret     []byte
	failed  bool
}

func (s *stubWitness) GetLatestCheckpoint(ctx context.Context, logID string) ([]byte, error) {
	k := rt.Choose(3)
	s.kind = append(s.kind, k)
	rt.Log(rt.Ev{K: "w.get", B: [][]byte{[]byte(logID)}})
	switch k {
	case 0:
		s.latest = append(s.latest, nil)
		return nil, os.ErrNotExist
	case 1:
		b := rt.Bytes("latestRaw")
		s.latest = append(s.latest, b)
		return b, nil
	}
	s.latest = append(s.latest, nil)
	return nil, errTransient
}

func (s *stubWitness) Update(ctx context.Context, logID string, oldSize uint64, newCP []byte, proof [][]byte) ([]byte, error) {
	c := updCall{attempt: len(s.kind) - 1, logID: logID, oldSize: oldSize, cp: newCP, proof: proof}
	if rt.Bool("w.update.fails") {
		c.failed = true
		s.upd = append(s.upd, c)
		return nil, errTransient
	}
	c.ret = rt.Bytes("w.cosigned")
	s.upd = append(s.upd, c)
	return c.ret, nil
}

type proofCall struct {
	attempt  int
	from, to log.Checkpoint
	ret      [][]byte
	failed   bool
}

// VerifFeedOnce is H-FEED with a recording witness stub: every Update the feeder issues is justified.
func VerifFeedOnce() {
	origin, key, logID := rt.Str("origin"), rt.U64("logkey"), rt.Str("logID")
	w := &stubWitness{}
	var pcalls []proofCall
	cpRaw := rt.Bytes("cpRaw")
	fetchFails := rt.Bool("fetchcp.fails")
	opts := FeedOpts{
		LogID: logID,
		FetchCheckpoint: func(ctx context.Context) ([]byte, error) {
			if fetchFails {
				return nil, errTransient
			}
			return cpRaw, nil
		},
		FetchProof: func(ctx context.Context, from, to log.Checkpoint) ([][]byte, error) {
			pc := proofCall{attempt: len(w.kind) - 1, from: from, to: to}
			if rt.Bool("fetchproof.fails") {
				pc.failed = true
				pcalls = append(pcalls, pc)
				return nil, errTransient
			}
			n := rt.Choose(rt.Param("maxproof", 2) + 1)
			pc.ret = [][]byte{}
			for i := 0; i < n; i++ {
				pc.ret = append(pc.ret, rt.Bytes("proofhash"))
			}
			pcalls = append(pcalls, pc)
			return pc.ret, nil
		},
		LogSigVerifier: &rt.Verifier{K: key, N: rt.UFStr("keyName", key)},
		LogOrigin:      origin,
		Witness:        w,
	}
	ctx := &rt.Ctx{}
	rt.ResetEvents()
	rt.Attempts = 0
	out, err := FeedOnce(ctx, opts)

	valid := rt.Valid(cpRaw, origin, key, nil)
	if fetchFails || !valid {
		rt.Assert(err != nil && out == nil && len(w.upd) == 0 && len(w.kind) == 0, "C13/nothing-sent-unless-verified")
		rt.Cover(!fetchFails && !valid, "feed/unverifiable-checkpoint")
		return
	}
	subSize, subHash := rt.CpSize(cpRaw), rt.CpHash(cpRaw)
	for _, u := range w.upd {
		a := u.attempt
		rt.Assert(u.logID == logID, "C13/update-names-the-configured-log")
		rt.Assert(rt.Eq(u.cp, cpRaw), "C13/submits-the-verified-bytes")
		// old size = size of the latest checkpoint the witness reported in this same attempt
		hasLatest := w.kind[a] == 1 && len(w.latest[a]) > 0
		var wantOld uint64
		if hasLatest {
			lr := w.latest[a]
			rt.Assert(rt.Valid(lr, origin, key, nil), "C13/latest-verified-before-use")
			wantOld = rt.CpSize(lr)
			rt.Assert(wantOld <= subSize, "C13/never-submits-when-witness-is-ahead")
		}
		rt.Assert(w.kind[a] != 2, "C13/no-update-after-failed-get-latest")
		rt.Assert(u.oldSize == wantOld, "C13/old-size-is-this-attempts-latest")
		// proof: fetched in this attempt from exactly (latest -> submitted), or empty for an unchanged checkpoint
		unchanged := hasLatest && rt.CpSize(w.latest[a]) == subSize && rt.Eq(rt.CpHash(w.latest[a]), subHash)
		if unchanged {
			rt.Assert(len(u.proof) == 0, "C13/refresh-sends-empty-proof")
			rt.Cover(true, "feed/refresh")
		} else {
			var pc *proofCall
			n := 0
			for i := range pcalls {
				if pcalls[i].attempt == a {
					pc = &pcalls[i]
					n++
				}
			}
			rt.Assert(n == 1 && pc != nil && !pc.failed, "C13/proof-fetched-in-this-attempt")
			if n == 1 && !pc.failed {
				okFrom := pc.from.Size == wantOld
				if hasLatest {
					okFrom = okFrom && rt.Eq(pc.from.Hash, rt.CpHash(w.latest[a])) && pc.from.Origin == origin
				} else {
					okFrom = okFrom && pc.from.Hash == nil
				}
				okTo := pc.to.Size == subSize && rt.Eq(pc.to.Hash, subHash) && pc.to.Origin == origin
				rt.Assert(okFrom && okTo, "C13/proof-requested-from-latest-to-submitted")
				same := len(u.proof) == len(pc.ret)
				if same {
					for i := range u.proof {
						same = same && rt.Eq(u.proof[i], pc.ret[i])
					}
				}
				rt.Assert(same, "C13/sends-the-proof-it-fetched")
			}
		}
	}
	// the witness was ahead in some attempt: permanent error, no update in that attempt
	for a := range w.kind {
		if w.kind[a] == 1 && len(w.latest[a]) > 0 && rt.Valid(w.latest[a], origin, key, nil) && rt.CpSize(w.latest[a]) > subSize {
			rt.Assert(err != nil && a == len(w.kind)-1, "C13/ahead-is-a-permanent-error")
			rt.Cover(true, "feed/witness-ahead")
		}
	}
	// result
	if err == nil {
		nu := len(w.upd)
		rt.Assert(nu >= 1 && !w.upd[nu-1].failed && rt.Eq(out, w.upd[nu-1].ret), "C13/returns-what-the-witness-returned")
		rt.Assert(w.upd[nu-1].attempt == len(w.kind)-1, "C13/success-comes-from-the-last-attempt")
		rt.Cover(len(w.kind) >= 2, "feed/success-after-retry")
		rt.Cover(len(w.kind) == 1, "feed/success-first-try")
	} else {
		rt.Assert(out == nil || len(w.upd) > 0, "C13/no-bytes-without-update")
	}
	if ctx.Finished {
		rt.Assert(err != nil, "C13/context-end-stops-with-error")
		rt.Cover(true, "feed/context-done")
	}
	// transient failures are retried: the attempts end with an error only because the back-off
	// policy gave up, the context ended, or the witness turned out to be ahead (the one permanent
	// condition)
	last := len(w.kind) - 1
	if err != nil && last >= 0 && rt.Count("retry.giveup") == 0 && rt.Count("retry.ctxdone") == 0 {
		ahead := w.kind[last] == 1 && len(w.latest[last]) > 0 && rt.Valid(w.latest[last], origin, key, nil) && rt.CpSize(w.latest[last]) > subSize
		rt.Assert(ahead, "C13/only-witness-ahead-ends-the-retries")
	}
	// a fault-free attempt succeeds
	if last >= 0 && err != nil && w.kind[last] != 2 {
		clean := true
		for _, pc := range pcalls {
			if pc.attempt == last && pc.failed {
				clean = false
			}
		}
		for _, u := range w.upd {
			if u.attempt == last && u.failed {
				clean = false
			}
		}
		if w.kind[last] == 1 && len(w.latest[last]) > 0 {
			lr := w.latest[last]
			if !rt.Valid(lr, origin, key, nil) || rt.CpSize(lr) > subSize {
				clean = false
			}
		}
		rt.Assert(!clean, "C13/fault-free-attempt-succeeds")
	}
}
