//go:build verifsym

package pixelbt

import (
	"context"
	"errors"

	rt "github.com/transparency-dev/witness/internal/verifrt"
)

var errFetch = errors.New("harness: fetch failed")

type sumdbHostile struct{ latest []byte }

func (w *sumdbHostile) GetLatestCheckpoint(ctx context.Context, logID string) ([]byte, error) {
	return w.latest, nil
}
func (w *sumdbHostile) Update(ctx context.Context, logID string, oldSize uint64, newCP []byte, proof [][]byte) ([]byte, error) {
	if rt.Bool("w.update.fails") {
		return nil, errFetch
	}
	return rt.Bytes("w.cosigned"), nil
}
