//go:build verifsym

package pixelbt

import (
	"net/http"

	"github.com/transparency-dev/witness/internal/config"
	"github.com/transparency-dev/witness/internal/feeder/sumdb"
	rt "github.com/transparency-dev/witness/internal/verifrt"
	"golang.org/x/mod/sumdb/tlog"
)

type hostileWitness = sumdbHostile

// VerifFeedHostile: one real feed cycle of the Pixel feeder against hostile sizes / hash lengths.
func VerifFeedHostile() {
	origin, key := rt.Str("origin"), rt.U64("logkey")
	l := config.Log{ID: rt.Str("id"), Origin: origin, Verifier: &rt.Verifier{K: key, N: rt.UFStr("keyName", key)}, URL: "https://pixel.example/"}
	latest := rt.Bytes("latestRaw")
	to, from := sumdb.VerifHostileSizes()
	rt.Name("to.size", to)
	rt.Name("from.size", from)
	rt.HostileCheckpointSizes(to, from, latest)
	rt.ResetEvents()
	err := FeedLog(&rt.Ctx{}, l, &hostileWitness{latest: latest}, &http.Client{}, 0)
	rt.Cover(err == nil, "hostile/cycle-succeeds")
	rt.Cover(err != nil, "hostile/cycle-fails")
	rt.Cover(rt.Count("tlog.ReadHashes") > 0, "hostile/proof-built")
}

// VerifReadTiles: the Pixel tile reader never panics for any tile of its own height.
func VerifReadTiles() {
	tr := tileReader{fetch: func(p string) ([]byte, error) {
		rt.Log(rt.Ev{K: "fetch", B: [][]byte{[]byte(p)}})
		if rt.Bool("fetch.fails") {
			return nil, errFetch
		}
		return rt.Bytes("tile"), nil
	}}
	t := tlog.Tile{H: tileHeight, L: rt.Int("L"), N: int64(rt.U64("N")), W: rt.Int("W")}
	out, err := tr.ReadTiles([]tlog.Tile{t})
	rt.Assert(err != nil || len(out) == 1, "C19/pixel-readtiles-one-result-per-tile")
	rt.Cover(err == nil, "pixel/readtiles-ok")
}
