//go:build verifsym

package sumdb

import (
	"context"
	"errors"
	"net/http"

	"github.com/transparency-dev/witness/internal/config"
	rt "github.com/transparency-dev/witness/internal/verifrt"
)

var errStub = errors.New("harness: witness stub error")

// hostileWitness already holds a checkpoint of the log, so the feeder has to build a proof.
type hostileWitness struct {
	latest []byte
	upd    []hostileUpdate
}

type hostileUpdate struct {
	oldSize uint64
	cp      []byte
	nproof  int
}

func (w *hostileWitness) GetLatestCheckpoint(ctx context.Context, logID string) ([]byte, error) {
	return w.latest, nil
}
func (w *hostileWitness) Update(ctx context.Context, logID string, oldSize uint64, newCP []byte, proof [][]byte) ([]byte, error) {
	w.upd = append(w.upd, hostileUpdate{oldSize: oldSize, cp: newCP, nproof: len(proof)})
	if rt.Bool("w.update.fails") {
		return nil, errStub
	}
	return rt.Bytes("w.cosigned"), nil
}

// VerifHostileSizes picks the checkpoint sizes the property names, plus small symbolic ones.
func VerifHostileSizes() (to, from uint64) {
	switch rt.Choose(8) {
	case 0:
		to = 0
	case 1:
		to = 1 << 62
	case 2:
		to = 1<<62 + 1
	case 3:
		to = 1<<63 - 1
	case 4:
		to = 1 << 63
	case 5:
		to = 1<<64 - 1
	case 6:
		to = 1<<62 - 1
	default:
		to = rt.U64("to.small")
		rt.Assume(to <= 9)
		to = uint64(rt.Concrete(int(to)))
	}
	switch rt.Choose(4) {
	case 0:
		from = 1
	case 1:
		from = 2
	case 2:
		from = to - 1
	default:
		from = to
	}
	return
}

// VerifFeedHostile runs one real feed cycle of the SumDB feeder (FeedLog with interval 0) against
// a log whose validly signed checkpoint has a hostile size and a root hash of arbitrary length.
func VerifFeedHostile() {
	origin, key := rt.Str("origin"), rt.U64("logkey")
	l := config.Log{ID: rt.Str("id"), Origin: origin, Verifier: &rt.Verifier{K: key, N: rt.UFStr("keyName", key)}, URL: "https://sum.example"}
	w := &hostileWitness{latest: rt.Bytes("latestRaw")}
	to, from := VerifHostileSizes()
	rt.Name("to.size", to)
	rt.Name("from.size", from)
	// the log's answer to /latest: any bytes; when it verifies it carries these sizes
	cp := rt.Bytes("http.respBody.expected")
	_ = cp
	rt.ResetEvents()
	rt.Attempts = 0
	// sizes are attributes of whatever bytes the log serves / the witness holds
	rt.HostileCheckpointSizes(to, from, w.latest)
	err := FeedLog(&rt.Ctx{}, l, w, &http.Client{}, 0)
	rt.Cover(err == nil, "hostile/cycle-succeeds")
	rt.Cover(err != nil, "hostile/cycle-fails")
	rt.Cover(rt.Count("tlog.ReadHashes") > 0, "hostile/proof-built")
	if rt.Prop("C18") {
		// what the feeder hands to the witness for a growth step from a non-empty tree is a proof
		// it built with tlog.ProveTree in this cycle; such a proof is never empty
		for _, u := range w.upd {
			if u.oldSize >= 1 && u.oldSize < rt.CpSize(u.cp) {
				rt.Assert(rt.Count("tlog.ReadHashes") > 0 && u.nproof > 0, "C18/growth-step-carries-a-proof-built-from-tiles")
				rt.Cover(true, "hostile/growth-submitted")
			}
		}
	}
}
