//go:build verifsym

package sumdb

import (
	"net/http"

	"github.com/transparency-dev/witness/internal/client"
	rt "github.com/transparency-dev/witness/internal/verifrt"
	"golang.org/x/mod/sumdb/tlog"
)

// VerifTilePath: for every tile coordinate the SumDB tile reader requests exactly the
// path the reference tlog implementation assigns to that tile (real ReadTiles ->
// TileData -> tilePath -> HTTPFetcher.GetData on one side, real tlog.Tile.Path on the other).
func VerifTilePath() {
	L := rt.Int("L")
	N := int64(rt.U64("N"))
	W := rt.Int("W")
	rt.Assume(L >= 0)
	rt.Assume(N >= 0)
	rt.Assume(W >= 1 && W <= leavesPerTile)
	t := tlog.Tile{H: tileHeight, L: L, N: N, W: W}
	base := rt.Str("base") // any base URL, with or without a path of its own
	tr := tileReader{c: client.NewSumDB(tileHeight, nil, base, &http.Client{})}
	rt.ResetEvents()
	_, _ = tr.ReadTiles([]tlog.Tile{t})
	if rt.Count("urlfail") > 0 {
		return // url.Parse / NewRequest may fail in the model (they cannot for these inputs in reality)
	}
	ev, ok := rt.Find("http.Get", 0)
	rt.Assert(ok && rt.Count("http.Get") == 1, "C18/one-request-per-tile")
	if !ok {
		return
	}
	want := base + "/" + t.Path()
	rt.Cover(W == leavesPerTile && N >= 1000000, "tile/full-deep")
	rt.Cover(W < leavesPerTile && N < 1000, "tile/partial-shallow")
	rt.Cover(N >= 1000000000000000000, "tile/seven-levels")
	rt.Assert(string(ev.B[0]) == want, "C18/path-equals-reference")
}
