//go:build verifsym

package http

import (
	"context"
	nethttp "net/http"
	"strings"

	rt "github.com/transparency-dev/witness/internal/verifrt"
	"github.com/transparency-dev/witness/internal/witness"
)

func verifGet(s *Server, id string) *rt.RecWriter {
	req := &nethttp.Request{}
	rt.SetVars(req, map[string]string{"logid": id})
	rec := &rt.RecWriter{}
	s.getCheckpoint(rec, req)
	return rec
}

func verifStatus(rec *rt.RecWriter) int {
	if rec.Status == 0 {
		return 200
	}
	return rec.Status
}

// VerifReadAPI is H-HTTP: the registered handlers serve exactly the stored state, before
// and after one arbitrary update.
func VerifReadAPI() {
	wd := witness.VerifNewWorld(rt.Param("logs", 2), rt.Param("signers", 1))
	s := NewServer(wd.W)
	// the witness files logs under IDs produced by formats/log.ID: lower-case hex digests
	for _, x := range wd.IDs {
		rt.Assume(strings.ToLower(x) == x)
	}
	id := rt.Str("reqid")
	hit := -1
	for i, x := range wd.IDs {
		if id == x {
			hit = i
		}
	}
	if rt.Param("getfaults", 0) == 1 {
		// a storage read that fails while the witness does hold a checkpoint is not "holds none"
		rt.ResetEvents()
		rt.DBFaults = true
		frec := verifGet(s, id)
		rt.DBFaults = false
		if rt.Count("dbfault") > 0 && hit >= 0 && wd.Stored[hit] {
			st := verifStatus(frec)
			rt.Assert(st != 404, "C16/read-fault-is-not-404")
			rt.Assert(st != 200 || rt.Eq(frec.Body, wd.Prev[hit]), "C16/read-fault-never-serves-other-bytes")
			rt.Cover(true, "http/read-fault")
		}
		// the same for the list: a failing read is an error or the complete list, never a part of it
		rt.ResetEvents()
		rt.DBFaults = true
		flrec := &rt.RecWriter{}
		s.getLogs(flrec, &nethttp.Request{})
		rt.DBFaults = false
		if rt.Count("dbfault") > 0 && verifStatus(flrec) == 200 {
			var all []any
			for i, x := range wd.IDs {
				if wd.Stored[i] {
					all = append(all, []byte(x))
				}
			}
			rt.Assert(rt.Eq(flrec.Body, rt.JSONList(all...)), "C16/read-fault-never-serves-a-partial-list")
			rt.Cover(true, "http/list-read-fault")
		}
	}
	rec := verifGet(s, id)
	rt.Assert(rec.WroteHeaders <= 1, "C16/at-most-one-status")
	if hit >= 0 && wd.Stored[hit] {
		rt.Assert(verifStatus(rec) == 200 && rt.Eq(rec.Body, wd.Prev[hit]), "C16/200-with-exactly-the-stored-bytes")
		rt.Cover(true, "http/found")
	} else {
		rt.Assert(verifStatus(rec) == 404, "C16/404-while-nothing-is-held")
		rt.Cover(hit < 0, "http/unknown-id")
		rt.Cover(hit >= 0, "http/known-id-nothing-stored")
	}

	// log list = the ids for which something is stored
	lrec := &rt.RecWriter{}
	s.getLogs(lrec, &nethttp.Request{})
	var want []any
	for i, x := range wd.IDs {
		if wd.Stored[i] {
			want = append(want, []byte(x))
		}
	}
	rt.Assert(verifStatus(lrec) == 200 && rt.Eq(lrec.Body, rt.JSONList(want...)), "C16/log-list-is-the-stored-ids")

	// a history of arbitrary updates (accepted and refused, any log), the same questions after each
	held := make([][]byte, len(wd.IDs)) // the latest cosigned checkpoint per log, nil = none
	has := make([]bool, len(wd.IDs))
	var order []int // logs in the order their first checkpoint was stored (the engine iterates a store in insertion order)
	for i := range wd.IDs {
		if wd.Stored[i] {
			held[i], has[i] = wd.Prev[i], true
			order = append(order, i)
		}
	}
	steps := rt.Param("steps", 2)
	for step := 0; step < steps; step++ {
		logID, oldSize, nextRaw := rt.Str("logID"), rt.U64("oldSize"), rt.Bytes("nextRaw")
		out, uerr := wd.W.Update(context.Background(), logID, oldSize, nextRaw, witness.VerifProof(rt.Param("maxproof", 1)))
		li := -1
		for i, x := range wd.IDs {
			if logID == x {
				li = i
			}
		}
		added := false
		if uerr == nil && li >= 0 {
			if !has[li] {
				order = append(order, li)
				added = true
			}
			held[li], has[li] = out, true
		}
		var want2 []any
		for _, i := range order {
			want2 = append(want2, []byte(wd.IDs[i]))
		}
		lrec2 := &rt.RecWriter{}
		s.getLogs(lrec2, &nethttp.Request{})
		rt.Assert(verifStatus(lrec2) == 200 && rt.Eq(lrec2.Body, rt.JSONList(want2...)), "C16/log-list-after-update")
		rt.Cover(added, "http/first-accept-adds-entry")
		rt.Cover(uerr != nil && li >= 0 && !has[li], "http/refused-first-submission")
		rt.Cover(step == 1 && uerr == nil, "http/second-update-accepted")
		// every configured log, not only the one just named
		for i, x := range wd.IDs {
			rec2 := verifGet(s, x)
			switch {
			case has[i] && i == li && uerr == nil:
				rt.Assert(verifStatus(rec2) == 200 && rt.Eq(rec2.Body, out), "C16/get-after-accept-returns-the-cosigned-bytes")
			case has[i]:
				rt.Assert(verifStatus(rec2) == 200 && rt.Eq(rec2.Body, held[i]), "C16/get-after-refusal-unchanged")
			default:
				rt.Assert(verifStatus(rec2) == 404, "C16/refused-first-submission-creates-no-entry")
			}
		}
	}
}
