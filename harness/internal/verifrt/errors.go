//go:build verifsym

package verifrt

import (
	"google.golang.org/grpc/codes"
)

// SentinelErr is the model of errors.New values (compared by identity).
type SentinelErr struct{ Msg string }

func (e *SentinelErr) Error() string { return e.Msg }

// FmtErr is the model of fmt.Errorf values; Wrapped is the %w operand.
type FmtErr struct {
	Wrapped error
	ID      int
}

func (e *FmtErr) Error() string { return "fmt.Errorf" }
func (e *FmtErr) Unwrap() error { return e.Wrapped }

//wsym:replace errors.New
func ErrorsNew(msg string) error { return &SentinelErr{Msg: msg} }

//wsym:replace errors.Is
func ErrorsIs(err, target error) bool {
	for i := 0; i < 8; i++ {
		if err == nil {
			return target == nil
		}
		if err == target {
			return true
		}
		u, ok := err.(interface{ Unwrap() error })
		if !ok {
			return false
		}
		err = u.Unwrap()
	}
	return false
}

//wsym:replace errors.Unwrap
func ErrorsUnwrap(err error) error {
	u, ok := err.(interface{ Unwrap() error })
	if !ok {
		return nil
	}
	return u.Unwrap()
}

// StatusErr is the model of google.golang.org/grpc/status errors.
type StatusErr struct{ C codes.Code }

func (e *StatusErr) Error() string { return "rpc error" }

//wsym:replace google.golang.org/grpc/status.Error
func StatusError(c codes.Code, msg string) error {
	if c == codes.OK {
		return nil
	}
	return &StatusErr{C: c}
}

//wsym:replace google.golang.org/grpc/status.Errorf
func StatusErrorf(c codes.Code, format string, a ...any) error {
	if c == codes.OK {
		return nil
	}
	return &StatusErr{C: c}
}

//wsym:replace google.golang.org/grpc/status.Code
func StatusCode(err error) codes.Code {
	if err == nil {
		return codes.OK
	}
	if se, ok := err.(*StatusErr); ok {
		return se.C
	}
	// grpc's status.Code also unwraps: an error that wraps a status error carries its code.
	e := err
	for i := 0; i < 8; i++ {
		u, ok := e.(interface{ Unwrap() error })
		if !ok {
			break
		}
		e = u.Unwrap()
		if e == nil {
			break
		}
		if se, ok := e.(*StatusErr); ok {
			return se.C
		}
	}
	return codes.Unknown
}
