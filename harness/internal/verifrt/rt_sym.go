//go:build verifsym

// Package verifrt is the harness runtime. Under the verifsym build tag (used
// when the wsym engine loads the program) the primitives below are intercepted
// by the engine by name; their bodies are never executed.
package verifrt

import "golang.org/x/mod/sumdb/note"

// Fresh symbolic inputs.
func U64(name string) uint64              { return 0 }
func U32(name string) uint32              { return 0 }
func U8(name string) uint8                { return 0 }
func Int(name string) int                 { return 0 }
func Bool(name string) bool               { return false }
func Bytes(name string) []byte            { return nil }
func Str(name string) string              { return "" }
func ByteArray(name string, n int) []byte { return nil }

// Path condition, obligations, reachability witnesses.
func Assume(c bool)            {}
func Assert(c bool, id string) {}
func Cover(c bool, id string)  {}

// Choose returns a concrete value in [0,n) by forking.
func Choose(n int) int { return 0 }

// Concrete concretises a symbolic integer by forking over its feasible values.
func Concrete(x int) int { return x }

// Prop reports whether the monitors of a property are armed in this run.
func Prop(id string) bool { return false }

// Param returns a bound chosen by the check (tier dependent).
func Param(name string, def int) int { return def }

// Symbolic is true under the engine and false natively.
func Symbolic() bool { return true }

// Name registers a term under a name for models and known-finding predicates.
func Name(name string, v any) {}

// Uninterpreted functions and injective constructors of the ideal algebra.
func UFBool(name string, args ...any) bool    { return false }
func UFU64(name string, args ...any) uint64   { return 0 }
func UFBytes(name string, args ...any) []byte { return nil }
func UFStr(name string, args ...any) string   { return "" }
func Ctor(name string, args ...any) []byte    { return nil }

// Eq is bytes.Equal as a single (non-forking) boolean term.
func Eq(a, b []byte) bool { return false }

// Non-forking connectives.
func And(a, b bool) bool                { return a && b }
func Or(a, b bool) bool                 { return a || b }
func Implies(a, b bool) bool            { return !a || b }
func Ite(c bool, a, b []byte) []byte    { return a }
func IteU64(c bool, a, b uint64) uint64 { return a }

// Unsupported ends the path as inconclusive; Cut ends it as outside the stated bound.
func Unsupported(msg string) {}
func Cut(msg string)         {}
func Note(msg string)        {}

// Weak marks the current path as depending on an uninterpreted stand-in (named by reason): a
// violation found on it is reported only if a native replay confirms it.
func Weak(reason string) {}

// WrapIndex returns the operand index of %w in a constant format, or -1.
func WrapIndex(format string) int { return -1 }
func IsLit(s string) bool         { return false }

// Crash points and threads.
func Crash()                     {}
func RunCrashable(f func()) bool { return false }
func Spawn(f func())             {}
func Yield()                     {}
func Block()                     {}
func RunThreads()                {}
func ThreadID() int              { return 0 }

// IteBool is a non-forking boolean if-then-else.
func IteBool(c, a, b bool) bool { return a }

// Hash32 / BytesOf32 convert between []byte and [32]byte views of one algebra term (no length check).
func Hash32(b []byte) [32]byte    { return [32]byte{} }
func BytesOf32(h [32]byte) []byte { return nil }

// SQLParse parses a constant SQL statement text (see sqlmodel.go): op (0 unknown, 1 create,
// 2 select, 3 insert, 4 update, 5 delete), insert conflict mode (0 plain, 1 replace, 2 ignore),
// the columns named (1 logID, 2 chkpt, 3 range; select list / insert targets / SET targets), for
// insert and update whether each value is a "?" placeholder (0) or the literal NULL (1), and the
// WHERE conjunction as col*10+kind (1 "= ?", 2 IS NULL, 3 IS NOT NULL).
func SQLParse(query string) (op int, conflict int, cols []int, lits []int, conds []int) { return }

// LazySigs defers a contract's construction of a signature list until the code under analysis
// first looks at it (so that contracts can describe rarely-read result fields without forking
// every caller).
func LazySigs(f func() []note.Signature) []note.Signature { return f() }

// Deadlocked reports whether RunThreads ended with unfinished threads and none runnable.
func Deadlocked() bool { return false }

// String-domain helpers.
func ReaderBytes(r any) []byte        { return nil }
func Dec(n uint64) string             { return "" }
func LenLE(s string, n int) bool      { return false }
func InRe(s string, kind string) bool { return false }
func ToInt(s string) uint64           { return 0 }
func FitsU64(s string) bool           { return false }

// AssumeNoCRLF assumes (and lets the engine exploit syntactically) that s contains no CR or LF.
func AssumeNoCRLF(s string) {}

// AlgebraDomain reports whether strings are ideal-algebra terms in this run.
func AlgebraDomain() bool { return true }

// Last returns the most recently created symbolic string variable of that name.
func Last(name string) string { return "" }

// AssumeLen assumes len(s) == n and lets the engine use the fact syntactically.
func AssumeLen(s string, n int) {}

// ReaderDrain returns what an io.Reader known to the engine still holds and consumes it.
func ReaderDrain(r any) []byte { return nil }

// Prefer states a soft constraint: when a violation is found the engine first looks for a model
// that also satisfies it (so that the native replay can rebuild the scenario).
func Prefer(c bool) {}
