//go:build verifsym

package verifrt

import (
	"errors"
	"math/bits"

	"github.com/transparency-dev/merkle"
	"github.com/transparency-dev/merkle/proof"
)

var errVC = errors.New("model: consistency proof rejected")

// ProofTerm folds a proof (concrete length, symbolic elements) into one algebra term.
func ProofTerm(p [][]byte) []byte {
	args := []any{}
	for _, h := range p {
		args = append(args, h)
	}
	return Ctor("proof", args...)
}

// VCVerdict is the summary of proof.VerifyConsistency used when it is not
// inlined: an uninterpreted (hence deterministic) verdict, pinned on the cases
// that the real code decides before looking at any hash. H-VC checks the real
// function against exactly these facts.
func VCVerdict(s1, s2 uint64, plen int, pt, r1, r2 []byte) bool {
	v := UFBool("vcOK", s1, s2, pt, r1, r2)
	v = IteBool(plen == 0, false, v)
	v = IteBool(s1 == 0, false, v)
	v = IteBool(s1 == s2, And(plen == 0, Eq(r1, r2)), v)
	v = IteBool(s2 < s1, false, v)
	return v
}

// VCWantLen is NOT part of the summary above (the bit-count arithmetic over two symbolic 64-bit
// sizes made z3 answer unknown on H-UPD's obligations); H-VC checks it against the real function,
// and length-dependent behaviour of Update is covered by H-HONEST with concrete sizes.
// It is the one proof length that VerifyConsistency accepts for sizes 0 < s1 < s2 (the
// real function compares len(proof) with it before it looks at any hash): the inclusion-proof
// suffix of entry s1-1 in the tree of size s2 from level TrailingZeros(s1) upwards, plus the
// seed hash unless s1 is a power of two.
func VCWantLen(s1, s2 uint64) int {
	full := bits.Len64((s1 - 1) ^ (s2 - 1))
	shift := bits.TrailingZeros64(s1)
	border := bits.OnesCount64((s1 - 1) >> uint(full))
	start := int(IteU64(s1 == uint64(1)<<uint(shift), 0, 1))
	return start + full - shift + border
}

// VerifyConsistency either runs the real function (vc_inline=1) or its summary; both log a VC event.
//
//wsym:replace github.com/transparency-dev/merkle/proof.VerifyConsistency
func VerifyConsistency(hasher merkle.LogHasher, size1, size2 uint64, pr [][]byte, root1, root2 []byte) error {
	pt := ProofTerm(pr)
	if Param("vc_inline", 0) == 1 {
		err := proof.VerifyConsistency(hasher, size1, size2, pr, root1, root2)
		var ok uint64
		if err == nil {
			ok = 1
		}
		Log(Ev{K: "VC", B: [][]byte{pt, root1, root2}, U: []uint64{size1, size2, ok}})
		return err
	}
	ok := VCVerdict(size1, size2, len(pr), pt, root1, root2)
	Log(Ev{K: "VC", B: [][]byte{pt, root1, root2}, U: []uint64{size1, size2, IteU64(ok, 1, 0)}})
	if ok {
		return nil
	}
	return errVC
}
