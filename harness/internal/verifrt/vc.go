//go:build verifsym

package verifrt

import (
	"errors"

	"github.com/transparency-dev/merkle"
	"github.com/transparency-dev/merkle/proof"
)

var errVC = errors.New("model: consistency proof rejected")

// ProofTerm folds a proof (concrete length, symbolic elements) into one algebra term.
func ProofTerm(p [][]byte) []byte {
	args := []any{}
	for _, h := range p {
		args = append(args, h)
	}
	return Ctor("proof", args...)
}

// VCVerdict is the summary of proof.VerifyConsistency used when it is not
// inlined: an uninterpreted (hence deterministic) verdict, pinned on the cases
// that the real code decides before looking at any hash. H-VC checks the real
// function against exactly these facts.
func VCVerdict(s1, s2 uint64, plen int, pt, r1, r2 []byte) bool {
	v := UFBool("vcOK", s1, s2, pt, r1, r2)
	v = IteBool(plen == 0, false, v)
	v = IteBool(s1 == 0, false, v)
	v = IteBool(s1 == s2, And(plen == 0, Eq(r1, r2)), v)
	v = IteBool(s2 < s1, false, v)
	return v
}

// VerifyConsistency either runs the real function (vc_inline=1) or its summary; both log a VC event.
//
//wsym:replace github.com/transparency-dev/merkle/proof.VerifyConsistency
func VerifyConsistency(hasher merkle.LogHasher, size1, size2 uint64, pr [][]byte, root1, root2 []byte) error {
	pt := ProofTerm(pr)
	if Param("vc_inline", 0) == 1 {
		err := proof.VerifyConsistency(hasher, size1, size2, pr, root1, root2)
		var ok uint64
		if err == nil {
			ok = 1
		}
		Log(Ev{K: "VC", B: [][]byte{pt, root1, root2}, U: []uint64{size1, size2, ok}})
		return err
	}
	ok := VCVerdict(size1, size2, len(pr), pt, root1, root2)
	Log(Ev{K: "VC", B: [][]byte{pt, root1, root2}, U: []uint64{size1, size2, IteU64(ok, 1, 0)}})
	if ok {
		return nil
	}
	return errVC
}
