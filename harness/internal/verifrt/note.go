//go:build verifsym

package verifrt

import (
	"errors"

	"github.com/transparency-dev/formats/log"
	"golang.org/x/mod/sumdb/note"
)

// Verifier models a note.Verifier: identity is the key id K. Two verifiers with
// the same K verify exactly the same signatures (same name and key hash).
type Verifier struct {
	K uint64
	N string
}

func (v *Verifier) Name() string                { return v.N }
func (v *Verifier) KeyHash() uint32             { return uint32(UFU64("keyHash", v.K)) }
func (v *Verifier) Verify(msg, sig []byte) bool { return UFBool("sigVerifies", v.K, msg, sig) }

// Signer models a note.Signer / cosignature signer with key id K.
type Signer struct {
	K uint64
	N string
}

func (s *Signer) Name() string    { return s.N }
func (s *Signer) KeyHash() uint32 { return uint32(UFU64("keyHash", s.K)) }
func (s *Signer) Sign(msg []byte) ([]byte, error) {
	if Bool("signer.fails") {
		return nil, errSigner
	}
	return UFBytes("rawSig", s.K, msg), nil
}
func (s *Signer) Verifier() note.Verifier { return &Verifier{K: s.K, N: s.N} }

var (
	errSigner    = errors.New("model: signer failed")
	errOpen      = errors.New("model: note.Open failed")
	errNoLogSig  = errors.New("model: no log signature found on note")
	errUnmarshal = errors.New("model: failed to unmarshal checkpoint")
	errOrigin    = errors.New("model: unexpected origin")
)

// noteRaw maps the *note.Note values handed out by ParseCheckpoint to the raw bytes they came from.
var noteRaw = map[*note.Note][]byte{}

// knownKeys are the key ids for which the Sign contract states its signature
// facts (hasSig / badSig are binary relations, so the ground instances need the keys).
var knownKeys []uint64
var knownNames []string

// RegisterKey makes a key id (and the key name that goes with it) known to the note contracts.
func RegisterKey(k uint64, name string) {
	knownKeys = append(knownKeys, k)
	knownNames = append(knownNames, name)
}

// unverifiedSigs is the UnverifiedSigs field of an opened note: x/mod note.Open puts every
// signature line whose (name, key hash) its verifier list does not know there, valid or not.
// Those are lines by registered keys that were not asked for (a witness's own earlier
// cosignature, another log's key) and lines by keys nobody in the harness knows.
func unverifiedSigs(raw []byte, verified []uint64) []note.Signature {
	var out []note.Signature
	for i, k := range knownKeys {
		if inKeys(k, verified) {
			continue
		}
		if Or(HasSig(raw, k), BadSig(raw, k)) {
			out = append(out, note.Signature{Name: knownNames[i], Hash: uint32(UFU64("keyHash", k)), Base64: UFStr("sigB64", raw, k)})
		}
	}
	if UFBool("hasForeignSig", raw) {
		out = append(out, note.Signature{Name: UFStr("foreignName", raw), Hash: uint32(UFU64("foreignHash", raw)), Base64: UFStr("foreignB64", raw)})
	}
	return out
}

func inKeys(k uint64, keys []uint64) bool {
	r := false
	for _, x := range keys {
		r = Or(r, x == k)
	}
	return r
}

// Attributes of raw note bytes: uninterpreted (arbitrary but functional) over
// the bytes. The Sign contract below adds the facts that relate the attributes
// of a cosigned note to those of the note it was built from.

func WellFormed(raw []byte) bool       { return UFBool("wellFormed", raw) }
func HasSig(raw []byte, k uint64) bool { return UFBool("hasSig", raw, k) }
func BadSig(raw []byte, k uint64) bool { return UFBool("badSig", raw, k) }
func TextOK(raw []byte) bool           { return UFBool("textOK", raw) }
func FirstLine(raw []byte) string      { return UFStr("firstLine", raw) }
func CpSize(raw []byte) uint64         { return UFU64("cpSize", raw) }
func CpHash(raw []byte) []byte         { return UFBytes("cpHash", raw) }
func NoteText(raw []byte) []byte       { return UFBytes("noteText", raw) }

// SigLines is the number of signature lines of the note (note.Open refuses more than 100).
func SigLines(raw []byte) uint64 { return UFU64("sigLines", raw) }

func keyOf(v note.Verifier) uint64 {
	mv, ok := v.(*Verifier)
	if !ok {
		Unsupported("note.Verifier that is not the verifrt model")
	}
	return mv.K
}

// Valid is the success condition of ParseCheckpoint(raw, origin, key k, others...).
func Valid(raw []byte, origin string, k uint64, others []uint64) bool {
	ok := And(WellFormed(raw), !BadSig(raw, k))
	for _, o := range others {
		ok = And(ok, !BadSig(raw, o))
	}
	ok = And(ok, HasSig(raw, k))
	ok = And(ok, TextOK(raw))
	ok = And(ok, FirstLine(raw) == origin)
	return ok
}

// ParseCheckpoint is the contract of formats/log.ParseCheckpoint (validated
// against the real function by harness H-PCP).
//
//wsym:replace github.com/transparency-dev/formats/log.ParseCheckpoint
func ParseCheckpoint(chkpt []byte, origin string, logSigV note.Verifier, otherSigVs ...note.Verifier) (*log.Checkpoint, []byte, *note.Note, error) {
	if Param("pcp_real", 0) == 1 {
		// H-PCP: run the pinned dependency's real code (over the note.Open contract)
		return log.ParseCheckpoint(chkpt, origin, logSigV, otherSigVs...)
	}
	k := keyOf(logSigV)
	var others []uint64
	for _, o := range otherSigVs {
		others = append(others, keyOf(o))
	}
	Log(Ev{K: "Parse", B: [][]byte{chkpt, []byte(origin)}, U: []uint64{k}})
	// note.Open: well formed, no line by an offered key that fails to verify, at least one that does
	opens := And(WellFormed(chkpt), !BadSig(chkpt, k))
	anySig := HasSig(chkpt, k)
	for _, o := range others {
		opens = And(opens, !BadSig(chkpt, o))
		anySig = Or(anySig, HasSig(chkpt, o))
	}
	if !And(opens, anySig) {
		return nil, nil, nil, errOpen
	}
	Assume(UFBool("hasNewline", chkpt)) // a signed note has at least two lines
	textAxioms(chkpt)
	Assume(SigLines(chkpt) >= 1)
	Assume(SigLines(chkpt) <= 100)
	// the opened note is handed back even when what follows refuses the checkpoint
	n := &note.Note{Text: string(NoteText(chkpt))}
	if HasSig(chkpt, k) {
		n.Sigs = append(n.Sigs, note.Signature{Name: logSigV.Name(), Hash: logSigV.KeyHash(), Base64: UFStr("sigB64", chkpt, k)})
	}
	for i, o := range others {
		if HasSig(chkpt, o) {
			n.Sigs = append(n.Sigs, note.Signature{Name: otherSigVs[i].Name(), Hash: otherSigVs[i].KeyHash(), Base64: UFStr("sigB64", chkpt, o)})
		}
	}
	verified := append([]uint64{k}, others...)
	n.UnverifiedSigs = LazySigs(func() []note.Signature { return unverifiedSigs(chkpt, verified) })
	noteRaw[n] = chkpt
	if !HasSig(chkpt, k) {
		return nil, nil, n, errNoLogSig
	}
	// (one branch for "body is not a checkpoint" and "unexpected origin": callers cannot tell the
	// two apart except by the message)
	if !And(TextOK(chkpt), FirstLine(chkpt) == origin) {
		return nil, nil, n, errOrigin
	}
	if hostileOn {
		// hostile-size harness: the sizes are dictated by the harness
		if Eq(chkpt, hostileLatest) {
			Assume(CpSize(chkpt) == hostileFrom)
		} else {
			Assume(CpSize(chkpt) == hostileTo)
		}
	}
	Assume(CpSize(chkpt) == TextSize(NoteText(chkpt)))
	Assume(Eq(CpHash(chkpt), TextHash(NoteText(chkpt))))
	cp := &log.Checkpoint{Origin: origin, Size: CpSize(chkpt), Hash: CpHash(chkpt)}
	return cp, UFBytes("otherData", chkpt), n, nil
}

// Sign is the contract of x/mod note.Sign.
//
//wsym:replace golang.org/x/mod/sumdb/note.Sign
func Sign(n *note.Note, signers ...note.Signer) ([]byte, error) {
	base, ok := noteRaw[n]
	if !ok {
		Unsupported("note.Sign on a note that did not come from ParseCheckpoint")
	}
	var keys []uint64
	for _, s := range signers {
		ms, ok := s.(*Signer)
		if !ok {
			Unsupported("note.Signer that is not the verifrt model")
		}
		if _, err := ms.Sign([]byte(n.Text)); err != nil {
			Log(Ev{K: "SignFail", B: [][]byte{base}})
			return nil, err
		}
		keys = append(keys, ms.K)
	}
	t := Clock()
	args := []any{base, t}
	for _, k := range keys {
		args = append(args, k)
	}
	c := Ctor("cosig", args...)
	// note.Sign keeps the text and every existing signature line, except lines
	// by the signers' own keys which are replaced, and adds one line per signer.
	Assume(CpSize(c) == CpSize(base))
	Assume(Eq(CpHash(c), CpHash(base)))
	Assume(Eq(NoteText(c), NoteText(base)))
	Assume(FirstLine(c) == FirstLine(base))
	Assume(TextOK(c) == TextOK(base))
	lines := SigLines(base)
	for _, k := range keys {
		lines = IteU64(Or(HasSig(base, k), BadSig(base, k)), lines, lines+1)
	}
	Assume(SigLines(c) == lines)
	Assume(WellFormed(c) == And(WellFormed(base), lines <= 100))
	for _, k := range knownKeys {
		Assume(HasSig(c, k) == Or(inKeys(k, keys), HasSig(base, k)))
		Assume(BadSig(c, k) == And(!inKeys(k, keys), BadSig(base, k)))
	}
	Log(Ev{K: "Sign", B: [][]byte{base, c}, U: append([]uint64{t}, keys...)})
	return c, nil
}

// TextParses / TextOrigin: whether a note text is a well-formed checkpoint body, and its first line.
func TextParses(text []byte) bool   { return UFBool("textParses", text) }
func TextOrigin(text []byte) string { return UFStr("textOrigin", text) }

// textAxioms ties the attributes of raw note bytes to those of the note's text (what
// formats/log.ParseCheckpoint computes by unmarshalling the text of the opened note).
func textAxioms(raw []byte) {
	Assume(TextOK(raw) == TextParses(NoteText(raw)))
	Assume(FirstLine(raw) == TextOrigin(NoteText(raw)))
}

// CheckpointUnmarshal is the contract of formats/log.Checkpoint.Unmarshal for code that opens a
// note itself: origin, size and hash are functions of the text; an ill-formed body is refused.
// (H-PCP, pcp_real=1, runs the real method.)
//
//wsym:replace (*github.com/transparency-dev/formats/log.Checkpoint).Unmarshal
func CheckpointUnmarshal(c *log.Checkpoint, data []byte) ([]byte, error) {
	if Param("pcp_real", 0) == 1 {
		return c.Unmarshal(data)
	}
	if !TextParses(data) {
		return nil, errUnmarshal
	}
	c.Origin, c.Size, c.Hash = TextOrigin(data), TextSize(data), TextHash(data)
	return UFBytes("textRest", data), nil
}

// VList models note.VerifierList.
type VList struct{ L []note.Verifier }

func (v *VList) Verifier(name string, hash uint32) (note.Verifier, error) {
	for _, x := range v.L {
		if x != nil && x.Name() == name && x.KeyHash() == hash {
			return x, nil
		}
	}
	return nil, errOpen
}

//wsym:replace golang.org/x/mod/sumdb/note.VerifierList
func VerifierList(list ...note.Verifier) note.Verifiers { return &VList{L: list} }

// NoteOpen is the contract of x/mod note.Open for callers that only use the text:
// it succeeds iff the note is well formed and carries a verified signature by a known key.
//
//wsym:replace golang.org/x/mod/sumdb/note.Open
func NoteOpen(msg []byte, known note.Verifiers) (*note.Note, error) {
	Log(Ev{K: "note.Open", B: [][]byte{msg}})
	n := &note.Note{Text: string(NoteText(msg))}
	vl, isList := known.(*VList)
	if !isList {
		if !UFBool("openOK", msg) {
			return nil, errOpen
		}
		noteRaw[n] = msg
		return n, nil
	}
	// x/mod note.Open: malformed notes are refused; a signature line by a known key that does not
	// verify is an error; verified lines are collected in note order; none verified is an error.
	if !WellFormed(msg) {
		return nil, errOpen
	}
	for _, v := range vl.L {
		k := keyOf(v)
		if BadSig(msg, k) {
			return nil, errOpen
		}
		if HasSig(msg, k) {
			n.Sigs = append(n.Sigs, note.Signature{Name: v.Name(), Hash: v.KeyHash(), Base64: UFStr("sigB64", msg, k)})
		}
	}
	if len(n.Sigs) == 0 {
		return nil, errOpen
	}
	textAxioms(msg)
	var verified []uint64
	for _, v := range vl.L {
		verified = append(verified, keyOf(v))
	}
	n.UnverifiedSigs = LazySigs(func() []note.Signature { return unverifiedSigs(msg, verified) })
	noteRaw[n] = msg
	return n, nil
}

// HostileCheckpointSizes fixes the sizes that log-signed bytes carry in a hostile-size harness:
// every checkpoint other than the witness's latest has size `to`; the latest has size `from`.
var hostileTo, hostileFrom uint64
var hostileLatest []byte
var hostileOn bool

func HostileCheckpointSizes(to, from uint64, latest []byte) {
	hostileTo, hostileFrom, hostileLatest, hostileOn = to, from, latest, true
}

// TextSize / TextHash: the size and root hash lines are functions of the signed text.
func TextSize(text []byte) uint64 { return UFU64("textSize", text) }
func TextHash(text []byte) []byte { return UFBytes("textHash", text) }
