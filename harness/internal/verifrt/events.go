//go:build verifsym

package verifrt

// Ev is one entry of the event log that model functions append to and that
// harness monitors inspect after the real code has run.
type Ev struct {
	K string   // kind: "Parse", "Sign", "VC", "Inc", "Set", ...
	B [][]byte // byte-string operands
	U []uint64 // integer operands
	T int      // thread id
}

var Events []Ev

func Log(e Ev) {
	e.T = ThreadID()
	Events = append(Events, e)
}

// Count returns the number of events of kind k.
func Count(k string) int {
	n := 0
	for _, e := range Events {
		if e.K == k {
			n++
		}
	}
	return n
}

// Find returns the i-th (0-based) event of kind k.
func Find(k string, i int) (Ev, bool) {
	for _, e := range Events {
		if e.K == k {
			if i == 0 {
				return e, true
			}
			i--
		}
	}
	return Ev{}, false
}

func ResetEvents() { Events = nil }

// Clock is the model of time.Now: arbitrary, non-decreasing.
var clockLast uint64
var clockN int

func Clock() uint64 {
	t := U64("clock")
	Assume(t >= clockLast)
	clockLast = t
	clockN++
	return t
}
