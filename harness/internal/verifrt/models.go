//go:build verifsym

package verifrt

import (
	"context"
	"errors"
	"sync"
	"time"

	"github.com/transparency-dev/merkle/rfc6962"
	"github.com/transparency-dev/witness/monitoring"
	"golang.org/x/mod/sumdb/tlog"
)

// ---------- RFC 6962 hasher: ideal (collision-free, domain-separated) hash ----------

//wsym:replace (*github.com/transparency-dev/merkle/rfc6962.Hasher).HashChildren
func HashChildren(h *rfc6962.Hasher, l, r []byte) []byte { return Ctor("node", l, r) }

//wsym:replace (*github.com/transparency-dev/merkle/rfc6962.Hasher).HashLeaf
func HashLeaf(h *rfc6962.Hasher, leaf []byte) []byte { return Ctor("leaf", leaf) }

//wsym:replace (*github.com/transparency-dev/merkle/rfc6962.Hasher).EmptyRoot
func EmptyRoot(h *rfc6962.Hasher) []byte { return Ctor("emptyroot") }

//wsym:replace (*github.com/transparency-dev/merkle/rfc6962.Hasher).Size
func HasherSize(h *rfc6962.Hasher) int { return 32 }

//wsym:replace github.com/transparency-dev/merkle/rfc6962.New
func NewHasher(h uint) *rfc6962.Hasher { return &rfc6962.Hasher{} }

//wsym:replace golang.org/x/mod/sumdb/tlog.NodeHash
func TlogNodeHash(l, r tlog.Hash) tlog.Hash {
	return tlog.Hash(Hash32(Ctor("node", BytesOf32(l), BytesOf32(r))))
}

// MTH is the RFC 6962 Merkle tree hash over a list of leaf hashes (concrete length).
func MTH(leaves [][]byte) []byte {
	n := len(leaves)
	if n == 0 {
		return Ctor("emptyroot")
	}
	if n == 1 {
		return leaves[0]
	}
	k := 1
	for k*2 < n {
		k *= 2
	}
	return Ctor("node", MTH(leaves[:k]), MTH(leaves[k:]))
}

// Leaves returns n fresh leaf hashes Leaf(d_i) with arbitrary leaf data d_i.
func Leaves(name string, n int) [][]byte {
	var out [][]byte
	for i := 0; i < n; i++ {
		out = append(out, Ctor("leaf", Bytes(name)))
	}
	return out
}

// ---------- sync ----------

type muState struct {
	w bool
	r int
}

var mus = map[*sync.RWMutex]*muState{}
var plainMus = map[*sync.Mutex]*muState{}

func muOf(m *sync.RWMutex) *muState {
	s, ok := mus[m]
	if !ok {
		s = &muState{}
		mus[m] = s
	}
	return s
}

func pmuOf(m *sync.Mutex) *muState {
	s, ok := plainMus[m]
	if !ok {
		s = &muState{}
		plainMus[m] = s
	}
	return s
}

//wsym:replace (*sync.RWMutex).Lock
func RWLock(m *sync.RWMutex) {
	Yield()
	s := muOf(m)
	for s.w || s.r > 0 {
		Block()
	}
	s.w = true
}

//wsym:replace (*sync.RWMutex).Unlock
func RWUnlock(m *sync.RWMutex) {
	s := muOf(m)
	if !s.w {
		panic("sync: Unlock of unlocked RWMutex")
	}
	s.w = false
	// no yield after a release: switching here is equivalent to switching before the next
	// acquire of this thread (the code in between is thread-local)
}

//wsym:replace (*sync.RWMutex).RLock
func RWRLock(m *sync.RWMutex) {
	Yield()
	s := muOf(m)
	for s.w {
		Block()
	}
	s.r++
}

//wsym:replace (*sync.RWMutex).RUnlock
func RWRUnlock(m *sync.RWMutex) {
	s := muOf(m)
	if s.r <= 0 {
		panic("sync: RUnlock of unlocked RWMutex")
	}
	s.r--
}

//wsym:replace (*sync.Mutex).Lock
func MuLock(m *sync.Mutex) {
	Yield()
	s := pmuOf(m)
	for s.w {
		Block()
	}
	s.w = true
}

//wsym:replace (*sync.Mutex).Unlock
func MuUnlock(m *sync.Mutex) {
	s := pmuOf(m)
	if !s.w {
		panic("sync: unlock of unlocked mutex")
	}
	s.w = false
	// no yield after a release: switching here is equivalent to switching before the next
	// acquire of this thread (the code in between is thread-local)
}

var onceDone = map[*sync.Once]bool{}

//wsym:replace (*sync.Once).Do
func OnceDo(o *sync.Once, f func()) {
	if !onceDone[o] {
		onceDone[o] = true
		f()
	}
}

// ---------- context ----------

// Ctx models a context.Context; whether it is done is decided by the harness.
type Ctx struct {
	ID       int
	Finished bool
}

func (c *Ctx) Deadline() (time.Time, bool) { return time.Time{}, false }
func (c *Ctx) Done() <-chan struct{}       { return nil }
func (c *Ctx) Err() error {
	if c.Finished {
		return context.Canceled
	}
	return nil
}
func (c *Ctx) Value(key any) any { return nil }

//wsym:replace context.Background
func ContextBackground() context.Context { return &Ctx{} }

// ---------- metrics: a recording factory ----------

type RecFactory struct{}

type RecCounter struct{ Name string }

func (RecFactory) NewCounter(name, help string, labelNames ...string) monitoring.Counter {
	Log(Ev{K: "NewCounter", B: [][]byte{[]byte(name)}})
	return &RecCounter{Name: name}
}

func (c *RecCounter) Inc(labelVals ...string) {
	b := [][]byte{[]byte(c.Name)}
	for _, l := range labelVals {
		b = append(b, []byte(l))
	}
	Log(Ev{K: "Inc", B: b})
}

// InstallMetrics installs the recording factory (idempotent, like the real SetMetricFactory).
func InstallMetrics() { monitoring.SetMetricFactory(RecFactory{}) }

// StrReader is an io.ReadCloser over a symbolic string (request / response bodies).
// The engine's bufio / io contracts read field S directly.
type StrReader struct {
	S        string
	Closed   bool
	FailRead bool // reading fails with a transport error (set by the HTTP contract)
}

func (r *StrReader) Read(p []byte) (int, error) {
	Unsupported("byte-level Read on a symbolic body")
	return 0, nil
}
func (r *StrReader) Close() error { r.Closed = true; return nil }

// PartsReader is a request body given by its parts (see bastion.parseBodyContract).
type PartsReader struct {
	Malformed bool
	Old       uint64
	Proof     [][]byte
	CP        []byte
	Closed    bool
}

func (r *PartsReader) Read(p []byte) (int, error) {
	Unsupported("byte-level Read on a parts body")
	return 0, nil
}
func (r *PartsReader) Close() error { r.Closed = true; return nil }

// ---------- tlog pieces that decode bytes ----------

var errTlog = errors.New("model: tlog error")

//wsym:replace golang.org/x/mod/sumdb/tlog.ParseTree
func TlogParseTree(text []byte) (tlog.Tree, error) {
	// contract (x/mod tlog/note.go): succeeds only for "go.sum database tree\n<n>\n<hash>\n..."
	// with 0 <= n < 2^63 in canonical decimal and a hash of exactly 32 bytes; size and hash are
	// the same second and third lines that formats/log.Checkpoint.Unmarshal reads.
	if !UFBool("treeTextOK", text) {
		return tlog.Tree{}, errTlog
	}
	Assume(TextSize(text) < 1<<63)
	Assume(len(TextHash(text)) == 32)
	return tlog.Tree{N: int64(TextSize(text)), Hash: tlog.Hash(Hash32(TextHash(text)))}, nil
}

// arbReader answers ReadHashes with an error or with one arbitrary hash per index. Like the real
// tlog tile hash reader it first plans the reads needed to recompute the hash of the whole tree
// (real tlog index arithmetic, reached through the exported tlog.TreeHash): for hostile tree
// sizes that planning is where the reference implementation overflows.
type arbReader struct{ N int64 }

type planReader struct{}

func (planReader) ReadHashes(indexes []int64) ([]tlog.Hash, error) {
	out := make([]tlog.Hash, len(indexes))
	return out, nil
}

func (r arbReader) ReadHashes(indexes []int64) ([]tlog.Hash, error) {
	Log(Ev{K: "tlog.ReadHashes", U: []uint64{uint64(len(indexes))}})
	if r.N > 0 {
		_, _ = tlog.TreeHash(r.N, planReader{}) // the authentication plan of tileHashReader.ReadHashes
	}
	if Bool("readhashes.fails") {
		return nil, errTlog
	}
	var out []tlog.Hash
	for range indexes {
		out = append(out, tlog.Hash(Hash32(Bytes("storedhash"))))
	}
	return out, nil
}

// TileHashReader's tile decoding and re-hashing is outside the encodable set: its contract is
// "one hash per requested index, or an error" after the index planning above.
//
//wsym:replace golang.org/x/mod/sumdb/tlog.TileHashReader
func TlogTileHashReader(tree tlog.Tree, tr tlog.TileReader) tlog.HashReader {
	return arbReader{N: tree.N}
}
