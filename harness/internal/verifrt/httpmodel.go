//go:build verifsym

package verifrt

import (
	"errors"
	"io"
	"net/http"
)

var errTransport = errors.New("model: transport error")

// ClientPost records the request and answers with an arbitrary status / body, or a transport error.
//
//wsym:replace (*net/http.Client).Post
func ClientPost(c *http.Client, url, contentType string, body io.Reader) (*http.Response, error) {
	Log(Ev{K: "http.Post", B: [][]byte{[]byte(url), ReaderBytes(body)}})
	if Bool("http.fails") {
		return nil, errTransport
	}
	return &http.Response{StatusCode: int(U64("http.status")), Status: Str("http.statusText"), Body: &StrReader{S: Str("http.respBody")}}, nil
}
