//go:build verifsym

package verifrt

import (
	"context"
	"errors"
	"io"
	"net/http"
	"net/url"
	"strings"

	"golang.org/x/mod/sumdb/note"
	"golang.org/x/time/rate"
)

var errTransport = errors.New("model: transport error")

// ClientPost records the request and answers with an arbitrary status / body, or a transport error.
//
//wsym:replace (*net/http.Client).Post
func ClientPost(c *http.Client, url, contentType string, body io.Reader) (*http.Response, error) {
	Log(Ev{K: "http.Post", B: [][]byte{[]byte(url), ReaderBytes(body)}})
	if Bool("http.fails") {
		return nil, errTransport
	}
	return &http.Response{StatusCode: int(U64("http.status")), Status: Str("http.statusText"), Body: &StrReader{S: Str("http.respBody")}, ContentLength: respContentLength(), Header: http.Header{}}, nil
}

// respContentLength: net/http reports -1 when the answer declares no length (chunked or
// close-delimited), otherwise the declared value, which a hostile server chooses freely.
func respContentLength() int64 {
	n := int64(U64("http.contentLength"))
	Assume(n >= -1)
	return n
}

// ClientGet records the URL and answers with an arbitrary status / body, or a transport error.
//
//wsym:replace (*net/http.Client).Get
func ClientGet(c *http.Client, url string) (*http.Response, error) {
	Log(Ev{K: "http.Get", B: [][]byte{[]byte(url)}})
	if Bool("http.fails") {
		return nil, errTransport
	}
	return &http.Response{StatusCode: int(U64("http.status")), Status: Str("http.statusText"), Body: &StrReader{S: Str("http.respBody")}, ContentLength: respContentLength(), Header: http.Header{}}, nil
}

// ---------- URLs ----------

var urlRaw = map[*url.URL]string{}

//wsym:replace net/url.Parse
func URLParse(raw string) (*url.URL, error) {
	if Bool("url.parse.fails") {
		Log(Ev{K: "urlfail"})
		return nil, errTransport
	}
	return URLOf(raw), nil
}

// URLOf builds a *url.URL that stands for the given text: its components are (uninterpreted)
// functions of the text.
func URLOf(raw string) *url.URL {
	u := &url.URL{Scheme: UFStr("urlScheme", raw), Host: UFStr("urlHost", raw), Path: UFStr("urlPath", raw), RawPath: UFStr("urlRawPath", raw), RawQuery: UFStr("urlRawQuery", raw), Fragment: UFStr("urlFragment", raw)}
	urlRaw[u] = raw
	return u
}

// String: a parsed URL prints as the text it was parsed from (no normalisation is modelled). If
// the code under analysis changed a component, the result is an uninterpreted function of the
// components - escaping rules are not modelled - and the path is weak.
//
//wsym:replace (*net/url.URL).String
func URLString(u *url.URL) string {
	raw, ok := urlRaw[u]
	if !ok {
		Unsupported("url.URL that was not produced by url.Parse")
	}
	same := u.Scheme == UFStr("urlScheme", raw) && u.Host == UFStr("urlHost", raw) && u.Path == UFStr("urlPath", raw) && u.RawPath == UFStr("urlRawPath", raw) && u.RawQuery == UFStr("urlRawQuery", raw) && u.Fragment == UFStr("urlFragment", raw)
	if same {
		return raw
	}
	Weak("url.URL components changed after parsing: String() is an uninterpreted function of them (escaping not modelled)")
	return UFStr("urlStringOf", u.Scheme, u.Host, u.Path, u.RawPath, u.RawQuery, u.Fragment)
}

// Resolution of a relative reference against a base is the (uninterpreted) function urlJoin.
//
//wsym:replace (*net/url.URL).Parse
func URLRelParse(u *url.URL, ref string) (*url.URL, error) {
	if Bool("url.parse.fails") {
		Log(Ev{K: "urlfail"})
		return nil, errTransport
	}
	return URLOf(UFStr("urlJoin", urlRaw[u], ref)), nil
}

// Query: the value of each query parameter is an (uninterpreted) function of the URL text and
// the parameter name; the model materialises the parameters the repository asks for.
//
//wsym:replace (*net/url.URL).Query
func URLQuery(u *url.URL) url.Values {
	v := url.Values{}
	for _, k := range []string{"treeID"} {
		if UFBool("urlHasParam", urlRaw[u], k) {
			v[k] = []string{UFStr("urlParam", urlRaw[u], k)}
		}
	}
	return v
}

//wsym:replace (net/url.Values).Get
func URLValuesGet(v url.Values, key string) string {
	vs := v[key]
	if len(vs) == 0 {
		return ""
	}
	return vs[0]
}

//wsym:replace net/url.PathEscape
func PathEscape(s string) string { return UFStr("pathEscape", s) }

// ---------- requests, responses ----------

type reqInfo struct {
	url  string
	body io.Reader
}

var reqs = map[*http.Request]*reqInfo{}

//wsym:replace net/http.NewRequest
func NewRequest(method, u string, body io.Reader) (*http.Request, error) {
	if Bool("newrequest.fails") {
		Log(Ev{K: "urlfail"})
		return nil, errTransport
	}
	r := &http.Request{Method: method, Header: http.Header{}}
	ri := &reqInfo{url: u}
	ri.body = body
	reqs[r] = ri
	return r, nil
}

//wsym:replace (*net/http.Request).WithContext
func RequestWithContext(r *http.Request, ctx context.Context) *http.Request { return r }

//wsym:replace (*net/http.Request).Context
func RequestContext(r *http.Request) context.Context { return &Ctx{} }

// ClientDo records the request; the answer is arbitrary: a transport error, or any status and
// body, possibly after a redirect that changed the method.
//
//wsym:replace (*net/http.Client).Do
func ClientDo(c *http.Client, r *http.Request) (*http.Response, error) {
	ri := reqs[r]
	if ri == nil {
		Unsupported("Client.Do on a request that was not built by http.NewRequest")
	}
	// what the transport would send is what the body reader holds NOW
	var sent []byte
	if ri.body != nil {
		sent = ReaderBytes(ri.body)
	}
	Log(Ev{K: "http.Do", B: [][]byte{[]byte(r.Method), []byte(ri.url), sent}})
	if Bool("http.fails") {
		// a transport error may strike before or after the request body was read
		if ri.body != nil && Bool("http.bodyReadBeforeFailure") {
			ReaderDrain(ri.body)
		}
		Log(Ev{K: "http.resp", U: []uint64{0, 0, 0}, B: [][]byte{nil}})
		// net/http: "Any returned error will be of type *url.Error"
		return nil, &url.Error{Op: r.Method, URL: ri.url, Err: errTransport}
	}
	if ri.body != nil {
		ReaderDrain(ri.body) // a request that was answered has been written completely
	}
	final := &http.Request{Method: r.Method, URL: URLOf(ri.url)}
	if Bool("http.redirected") {
		final = &http.Request{Method: Str("http.finalMethod"), URL: URLOf(Str("http.finalURL"))}
	}
	status := U64("http.status")
	Assume(status >= 100 && status < 600)
	// the response body arrives over the same connection: reading it may fail
	readFails := Param("io_faults", 0) == 1 && Bool("http.bodyReadFails")
	Log(Ev{K: "http.resp", U: []uint64{1, status, IteU64(readFails, 1, 0)}, B: [][]byte{[]byte(final.Method)}})
	return &http.Response{StatusCode: int(status), Status: Str("http.statusText"), Body: &StrReader{S: Str("http.respBody"), FailRead: readFails}, Request: final, ContentLength: respContentLength(), Header: http.Header{}}, nil
}

// ---------- server side ----------

// RecWriter is a recording http.ResponseWriter.
type RecWriter struct {
	H            http.Header
	Status       int
	WroteHeaders int
	Body         []byte
	Writes       int
}

func (w *RecWriter) Header() http.Header {
	if w.H == nil {
		w.H = http.Header{}
	}
	return w.H
}

func (w *RecWriter) WriteHeader(code int) {
	w.WroteHeaders++
	if w.Status == 0 {
		w.Status = code
	}
}

func (w *RecWriter) Write(b []byte) (int, error) {
	if w.Status == 0 {
		w.Status = 200
	}
	if w.Writes > 0 {
		Unsupported("more than one Write to a response")
	}
	w.Writes++
	w.Body = b
	return len(b), nil
}

//wsym:replace (net/http.Header).Set
func HeaderSet(h http.Header, k, v string) { h[k] = []string{v} }

//wsym:replace (net/http.Header).Add
func HeaderAdd(h http.Header, k, v string) { h[k] = append(h[k], v) }

//wsym:replace (net/http.Header).Get
func HeaderGet(h http.Header, k string) string {
	if v := h[k]; len(v) > 0 {
		return v[0]
	}
	return ""
}

//wsym:replace net/http.Error
func HTTPError(w http.ResponseWriter, msg string, code int) {
	w.Header().Set("Content-Type", "text/plain; charset=utf-8")
	w.WriteHeader(code)
	w.Write([]byte(msg))
}

var reqVars = map[*http.Request]map[string]string{}

// SetVars attaches route variables to a request (what gorilla/mux would have extracted).
func SetVars(r *http.Request, v map[string]string) { reqVars[r] = v }

//wsym:replace github.com/gorilla/mux.Vars
func MuxVars(r *http.Request) map[string]string { return reqVars[r] }

//wsym:replace encoding/json.Marshal
func JSONMarshal(v any) ([]byte, error) {
	switch x := v.(type) {
	case []string:
		args := []any{}
		for _, s := range x {
			args = append(args, []byte(s))
		}
		return JSONList(args...), nil
	}
	Unsupported("json.Marshal of an unsupported type")
	return nil, nil
}

// JSONList is the (injective) JSON encoding of a list of strings.
func JSONList(elems ...any) []byte {
	if !AlgebraDomain() {
		return UFBytes("jsonList", elems...)
	}
	return Ctor("json", elems...)
}

// ---------- misc contracts ----------

//wsym:replace github.com/transparency-dev/formats/log.ID
func LogID(origin string) string {
	id := UFStr("logID", origin)
	Assume(strings.ToLower(id) == id) // hex digests are lower case
	return id
}

//wsym:replace (*golang.org/x/time/rate.Limiter).Allow
func LimiterAllow(l *rate.Limiter) bool {
	ok := Bool("limiter.allow")
	Log(Ev{K: "limiter.allow", U: []uint64{IteU64(ok, 1, 0)}})
	return ok
}

//wsym:replace golang.org/x/time/rate.NewLimiter
func NewLimiter(r rate.Limit, b int) *rate.Limiter { return &rate.Limiter{} }

// NewVerifier is the contract of formats/note.NewVerifier: a verifier whose identity (key id)
// and name are functions of the key text; malformed key text is refused.
//
//wsym:replace github.com/transparency-dev/formats/note.NewVerifier
func NewVerifierFromKey(key string) (note.Verifier, error) {
	if !UFBool("keyTextOK", key) {
		return nil, errOpen
	}
	return &Verifier{K: UFU64("keyOfText", key), N: UFStr("nameOfText", key)}, nil
}

//wsym:replace io.WriteString
func IOWriteString(w io.Writer, s string) (int, error) { return w.Write([]byte(s)) }

// URLErrorTimeout is (*url.Error).Timeout: true iff the wrapped error says so.
//
//wsym:replace (*net/url.Error).Timeout
func URLErrorTimeout(e *url.Error) bool {
	t, ok := e.Err.(interface{ Timeout() bool })
	return ok && t.Timeout()
}
