//go:build verifsym

package verifrt

import (
	"errors"
	"io"
	"net/http"
)

var errTransport = errors.New("model: transport error")

// ClientPost records the request and answers with an arbitrary status / body, or a transport error.
//
//wsym:replace (*net/http.Client).Post
func ClientPost(c *http.Client, url, contentType string, body io.Reader) (*http.Response, error) {
	Log(Ev{K: "http.Post", B: [][]byte{[]byte(url), ReaderBytes(body)}})
	if Bool("http.fails") {
		return nil, errTransport
	}
	return &http.Response{StatusCode: int(U64("http.status")), Status: Str("http.statusText"), Body: &StrReader{S: Str("http.respBody")}}, nil
}

// ClientGet records the URL and answers with an arbitrary status / body, or a transport error.
//
//wsym:replace (*net/http.Client).Get
func ClientGet(c *http.Client, url string) (*http.Response, error) {
	Log(Ev{K: "http.Get", B: [][]byte{[]byte(url)}})
	if Bool("http.fails") {
		return nil, errTransport
	}
	return &http.Response{StatusCode: int(U64("http.status")), Status: Str("http.statusText"), Body: &StrReader{S: Str("http.respBody")}}, nil
}

//wsym:replace io.LimitReader
func LimitReader(r io.Reader, n int64) io.Reader { return r }
