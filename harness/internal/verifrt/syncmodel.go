//go:build verifsym

package verifrt

import (
	"sync"
	"sync/atomic"
)

// Contract models of sync.Map and sync/atomic: each operation is atomic and is a yield point
// (another thread may run before it), like a mutex acquire.

type syncMapState struct{ m map[any]any }

var syncMaps = map[*sync.Map]*syncMapState{}

func smap(m *sync.Map) *syncMapState {
	s, ok := syncMaps[m]
	if !ok {
		s = &syncMapState{m: map[any]any{}}
		syncMaps[m] = s
	}
	return s
}

//wsym:replace (*sync.Map).Load
func SyncMapLoad(m *sync.Map, key any) (any, bool) {
	Yield()
	v, ok := smap(m).m[key]
	return v, ok
}

//wsym:replace (*sync.Map).Store
func SyncMapStore(m *sync.Map, key, value any) {
	Yield()
	smap(m).m[key] = value
}

//wsym:replace (*sync.Map).LoadOrStore
func SyncMapLoadOrStore(m *sync.Map, key, value any) (any, bool) {
	Yield()
	s := smap(m)
	if v, ok := s.m[key]; ok {
		return v, true
	}
	s.m[key] = value
	return value, false
}

//wsym:replace (*sync.Map).LoadAndDelete
func SyncMapLoadAndDelete(m *sync.Map, key any) (any, bool) {
	Yield()
	s := smap(m)
	v, ok := s.m[key]
	delete(s.m, key)
	return v, ok
}

//wsym:replace (*sync.Map).Delete
func SyncMapDelete(m *sync.Map, key any) {
	Yield()
	delete(smap(m).m, key)
}

//wsym:replace (*sync.Map).Swap
func SyncMapSwap(m *sync.Map, key, value any) (any, bool) {
	Yield()
	s := smap(m)
	v, ok := s.m[key]
	s.m[key] = value
	return v, ok
}

//wsym:replace (*sync.Map).CompareAndSwap
func SyncMapCompareAndSwap(m *sync.Map, key, old, new any) bool {
	Yield()
	s := smap(m)
	if v, ok := s.m[key]; ok && v == old {
		s.m[key] = new
		return true
	}
	return false
}

//wsym:replace (*sync.Map).Range
func SyncMapRange(m *sync.Map, f func(key, value any) bool) {
	Yield()
	for k, v := range smap(m).m {
		if !f(k, v) {
			return
		}
	}
}

// ---- sync/atomic: functions on plain words ----

//wsym:replace sync/atomic.AddInt64
func AtomicAddInt64(p *int64, d int64) int64 { Yield(); *p += d; return *p }

//wsym:replace sync/atomic.AddUint64
func AtomicAddUint64(p *uint64, d uint64) uint64 { Yield(); *p += d; return *p }

//wsym:replace sync/atomic.AddInt32
func AtomicAddInt32(p *int32, d int32) int32 { Yield(); *p += d; return *p }

//wsym:replace sync/atomic.AddUint32
func AtomicAddUint32(p *uint32, d uint32) uint32 { Yield(); *p += d; return *p }

//wsym:replace sync/atomic.LoadInt64
func AtomicLoadInt64(p *int64) int64 { Yield(); return *p }

//wsym:replace sync/atomic.LoadUint64
func AtomicLoadUint64(p *uint64) uint64 { Yield(); return *p }

//wsym:replace sync/atomic.LoadInt32
func AtomicLoadInt32(p *int32) int32 { Yield(); return *p }

//wsym:replace sync/atomic.LoadUint32
func AtomicLoadUint32(p *uint32) uint32 { Yield(); return *p }

//wsym:replace sync/atomic.StoreInt64
func AtomicStoreInt64(p *int64, v int64) { Yield(); *p = v }

//wsym:replace sync/atomic.StoreUint64
func AtomicStoreUint64(p *uint64, v uint64) { Yield(); *p = v }

//wsym:replace sync/atomic.StoreInt32
func AtomicStoreInt32(p *int32, v int32) { Yield(); *p = v }

//wsym:replace sync/atomic.StoreUint32
func AtomicStoreUint32(p *uint32, v uint32) { Yield(); *p = v }

//wsym:replace sync/atomic.CompareAndSwapInt64
func AtomicCASInt64(p *int64, o, n int64) bool {
	Yield()
	if *p == o {
		*p = n
		return true
	}
	return false
}

//wsym:replace sync/atomic.CompareAndSwapUint64
func AtomicCASUint64(p *uint64, o, n uint64) bool {
	Yield()
	if *p == o {
		*p = n
		return true
	}
	return false
}

//wsym:replace sync/atomic.CompareAndSwapInt32
func AtomicCASInt32(p *int32, o, n int32) bool {
	Yield()
	if *p == o {
		*p = n
		return true
	}
	return false
}

//wsym:replace sync/atomic.CompareAndSwapUint32
func AtomicCASUint32(p *uint32, o, n uint32) bool {
	Yield()
	if *p == o {
		*p = n
		return true
	}
	return false
}

// ---- sync/atomic: typed values (their word is unexported: kept in side tables) ----

var (
	atomI64  = map[*atomic.Int64]int64{}
	atomU64  = map[*atomic.Uint64]uint64{}
	atomI32  = map[*atomic.Int32]int32{}
	atomU32  = map[*atomic.Uint32]uint32{}
	atomBool = map[*atomic.Bool]bool{}
	atomVal  = map[*atomic.Value]any{}
)

//wsym:replace (*sync/atomic.Int64).Load
func AtomInt64Load(x *atomic.Int64) int64 { Yield(); return atomI64[x] }

//wsym:replace (*sync/atomic.Int64).Store
func AtomInt64Store(x *atomic.Int64, v int64) { Yield(); atomI64[x] = v }

//wsym:replace (*sync/atomic.Int64).Add
func AtomInt64Add(x *atomic.Int64, d int64) int64 { Yield(); atomI64[x] += d; return atomI64[x] }

//wsym:replace (*sync/atomic.Int64).CompareAndSwap
func AtomInt64CAS(x *atomic.Int64, o, n int64) bool {
	Yield()
	if atomI64[x] == o {
		atomI64[x] = n
		return true
	}
	return false
}

//wsym:replace (*sync/atomic.Uint64).Load
func AtomUint64Load(x *atomic.Uint64) uint64 { Yield(); return atomU64[x] }

//wsym:replace (*sync/atomic.Uint64).Store
func AtomUint64Store(x *atomic.Uint64, v uint64) { Yield(); atomU64[x] = v }

//wsym:replace (*sync/atomic.Uint64).Add
func AtomUint64Add(x *atomic.Uint64, d uint64) uint64 { Yield(); atomU64[x] += d; return atomU64[x] }

//wsym:replace (*sync/atomic.Uint64).CompareAndSwap
func AtomUint64CAS(x *atomic.Uint64, o, n uint64) bool {
	Yield()
	if atomU64[x] == o {
		atomU64[x] = n
		return true
	}
	return false
}

//wsym:replace (*sync/atomic.Int32).Load
func AtomInt32Load(x *atomic.Int32) int32 { Yield(); return atomI32[x] }

//wsym:replace (*sync/atomic.Int32).Store
func AtomInt32Store(x *atomic.Int32, v int32) { Yield(); atomI32[x] = v }

//wsym:replace (*sync/atomic.Int32).Add
func AtomInt32Add(x *atomic.Int32, d int32) int32 { Yield(); atomI32[x] += d; return atomI32[x] }

//wsym:replace (*sync/atomic.Uint32).Load
func AtomUint32Load(x *atomic.Uint32) uint32 { Yield(); return atomU32[x] }

//wsym:replace (*sync/atomic.Uint32).Store
func AtomUint32Store(x *atomic.Uint32, v uint32) { Yield(); atomU32[x] = v }

//wsym:replace (*sync/atomic.Uint32).Add
func AtomUint32Add(x *atomic.Uint32, d uint32) uint32 { Yield(); atomU32[x] += d; return atomU32[x] }

//wsym:replace (*sync/atomic.Bool).Load
func AtomBoolLoad(x *atomic.Bool) bool { Yield(); return atomBool[x] }

//wsym:replace (*sync/atomic.Bool).Store
func AtomBoolStore(x *atomic.Bool, v bool) { Yield(); atomBool[x] = v }

//wsym:replace (*sync/atomic.Bool).Swap
func AtomBoolSwap(x *atomic.Bool, v bool) bool { Yield(); o := atomBool[x]; atomBool[x] = v; return o }

//wsym:replace (*sync/atomic.Bool).CompareAndSwap
func AtomBoolCAS(x *atomic.Bool, o, n bool) bool {
	Yield()
	if atomBool[x] == o {
		atomBool[x] = n
		return true
	}
	return false
}

//wsym:replace (*sync/atomic.Value).Load
func AtomValueLoad(x *atomic.Value) any { Yield(); return atomVal[x] }

//wsym:replace (*sync/atomic.Value).Store
func AtomValueStore(x *atomic.Value, v any) { Yield(); atomVal[x] = v }
