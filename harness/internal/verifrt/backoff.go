//go:build verifsym

package verifrt

import (
	"context"
	"time"

	"github.com/cenkalti/backoff/v4"
)

// BackOffCtx models backoff.WithContext(backoff.NewExponentialBackOff(), ctx).
type BackOffCtx struct{ C context.Context }

func (b *BackOffCtx) NextBackOff() time.Duration { return 0 }
func (b *BackOffCtx) Reset()                     {}
func (b *BackOffCtx) Context() context.Context   { return b.C }

//wsym:replace github.com/cenkalti/backoff/v4.NewExponentialBackOff
func NewExponentialBackOff(opts ...backoff.ExponentialBackOffOpts) *backoff.ExponentialBackOff {
	return &backoff.ExponentialBackOff{}
}

//wsym:replace github.com/cenkalti/backoff/v4.WithContext
func WithContext(b backoff.BackOff, ctx context.Context) backoff.BackOffContext {
	return &BackOffCtx{C: ctx}
}

// Attempts counts operation invocations of the current Retry (for harness monitors).
var Attempts int

// Retry is the contract of backoff.Retry (v4): run the operation; nil ends with nil; a
// *PermanentError ends with the wrapped error; otherwise either the back-off policy gives up
// (the last error is returned), or the context ends while waiting (its error is returned),
// or the operation is tried again. The number of attempts is bounded by Param("attempts").
//
//wsym:replace github.com/cenkalti/backoff/v4.Retry
func Retry(o backoff.Operation, b backoff.BackOff) error {
	var ctx context.Context
	if bc, ok := b.(*BackOffCtx); ok {
		ctx = bc.C
	}
	max := Param("attempts", 3)
	for i := 0; i < max; i++ {
		Attempts++
		err := o()
		if err == nil {
			return nil
		}
		e := err
		for j := 0; j < 4 && e != nil; j++ {
			if p, ok := e.(*backoff.PermanentError); ok {
				return p.Err
			}
			u, ok := e.(interface{ Unwrap() error })
			if !ok {
				break
			}
			e = u.Unwrap()
		}
		switch Choose(3) {
		case 0: // the policy gives up (elapsed time exceeded)
			Log(Ev{K: "retry.giveup"})
			if ctx != nil && ctx.Err() != nil {
				return ctx.Err()
			}
			return err
		case 1: // the context ends while waiting
			if c, ok := ctx.(*Ctx); ok {
				c.Finished = true
				Log(Ev{K: "retry.ctxdone"})
				return ctx.Err()
			}
		}
		// otherwise: wait and try again
	}
	Cut("more retry attempts than the stated bound")
	return nil
}
