//go:build verifsym

package verifrt

import (
	"database/sql"
	"errors"
)

// Contract model of database/sql over SQLite for the statements the repository issues.
//
// A-db: a transaction's writes become visible and durable atomically when
// Commit succeeds; a failed Commit, a Rollback or a crash applies none of them;
// statements outside a transaction autocommit; the pool hands out at most
// MaxOpen connections (a Tx or an open Rows holds one until it is finished).

type dbOp struct {
	del bool
	key string
	row dbRow
}

type DBState struct {
	Table   map[string]dbRow
	Created bool
	InUse   int // connections held by open transactions / row sets
	MaxOpen int // 0 = unlimited
	OpenTx  int
}

type txState struct {
	db     *sql.DB
	staged []dbOp
	done   bool
}

type rowState struct {
	err   error
	found bool
	val   []byte // nil = NULL
	isKey bool   // the selected column is logID (a text value)
	key   string
}

type rowsState struct {
	db     *sql.DB
	holds  bool // holds a pooled connection of its own until closed
	vals   []string
	null   []bool
	i      int
	closed bool
	err    error
}

var (
	dbs    = map[*sql.DB]*DBState{}
	txs    = map[*sql.Tx]*txState{}
	rowSts = map[*sql.Row]*rowState{}
	rowsS  = map[*sql.Rows]*rowsState{}

	// Fault injection and crash points (armed by harnesses).
	DBFaults  bool
	CrashAt   int // boundary number at which the process is killed (0 = never)
	Boundary  int
	errDB     = errors.New("model: database error")
	errLocked = errors.New("model: database is locked")
)

// Column ids of table chkpts as reported by SQLParse.
const (
	colLogID = 1
	colChkpt = 2
	colRange = 3
)

// dbRow is one row; a nil Chkpt is SQL NULL.
type dbRow struct {
	Chkpt []byte
}

// NewDB returns a fresh database handle with an empty store.
func NewDB(maxOpen int) *sql.DB {
	db := &sql.DB{}
	dbs[db] = &DBState{Table: map[string]dbRow{}, MaxOpen: maxOpen}
	return db
}

func DB(db *sql.DB) *DBState {
	s, ok := dbs[db]
	if !ok {
		Unsupported("*sql.DB that was not created by verifrt.NewDB")
	}
	return s
}

// Restart models a process restart after a crash: open transactions vanish.
func Restart(db *sql.DB) {
	s := DB(db)
	s.InUse = 0
	s.OpenTx = 0
	for _, t := range txs {
		if t.db == db {
			t.done = true
			t.staged = nil
		}
	}
}

// boundary is a driver-operation boundary: a crash may happen exactly here.
func boundary() {
	Boundary++
	if CrashAt == Boundary {
		Log(Ev{K: "crash", U: []uint64{uint64(Boundary)}})
		Crash()
	}
}

func fault(op string) bool {
	if DBFaults && Bool("dbfault") {
		Log(Ev{K: "dbfault", B: [][]byte{[]byte(op)}})
		return true
	}
	return false
}

// acquire takes a pooled connection, blocking while the pool is exhausted.
func acquire(s *DBState) {
	Yield()
	for s.MaxOpen > 0 && s.InUse >= s.MaxOpen {
		Block()
	}
	s.InUse++
}

func release(s *DBState) {
	s.InUse-- // no yield after a release (see models.go)
}

//wsym:replace (*database/sql.DB).SetMaxOpenConns
func DBSetMaxOpenConns(db *sql.DB, n int) {
	DB(db).MaxOpen = n
	Log(Ev{K: "SetMaxOpenConns", U: []uint64{uint64(n)}})
}

//wsym:replace (*database/sql.DB).Begin
func DBBegin(db *sql.DB) (*sql.Tx, error) {
	s := DB(db)
	boundary()
	acquire(s)
	if fault("begin") {
		release(s)
		boundary()
		return nil, errDB
	}
	tx := &sql.Tx{}
	txs[tx] = &txState{db: db}
	s.OpenTx++
	Log(Ev{K: "db.begin"})
	boundary()
	return tx, nil
}

func lookupIn(s *DBState, staged []dbOp, key string) (dbRow, bool) {
	for i := len(staged) - 1; i >= 0; i-- {
		if staged[i].key == key {
			if staged[i].del {
				return dbRow{}, false
			}
			return staged[i].row, true
		}
	}
	v, ok := s.Table[key]
	return v, ok
}

// nullOK evaluates an optional "chkpt IS NOT NULL" (1) / "chkpt IS NULL" (2) filter on a row.
func nullOK(row dbRow, nul int) bool {
	switch nul {
	case 1:
		return row.Chkpt != nil
	case 2:
		return row.Chkpt == nil
	}
	return true
}

func queryRow(s *DBState, staged []dbOp, query string, args []any) *sql.Row {
	r := &sql.Row{}
	st := &rowState{}
	rowSts[r] = st
	if fault("query") {
		st.err = errDB
		return r
	}
	op, _, cols, where := SQLParse(query)
	nul := where / 4
	where %= 4
	if op != 2 || where != 1 || len(cols) != 1 {
		Unsupported("QueryRow with an unrecognised SQL statement")
	}
	if len(args) != 1 {
		st.err = errDB
		return r
	}
	key, ok := args[0].(string)
	if !ok {
		Unsupported("SELECT with a non-string key")
	}
	if !s.Created {
		st.err = errDB // no such table
		return r
	}
	row, found := lookupIn(s, staged, key)
	st.found = found && nullOK(row, nul)
	switch cols[0] {
	case colChkpt:
		st.val = row.Chkpt
	case colLogID:
		st.isKey, st.key = true, key
	default:
		st.val = nil // the range column is never written: NULL
	}
	return r
}

//wsym:replace (*database/sql.Tx).QueryRow
func TxQueryRow(tx *sql.Tx, query string, args ...any) *sql.Row {
	t := txs[tx]
	boundary()
	var r *sql.Row
	if t.done {
		r = &sql.Row{}
		rowSts[r] = &rowState{err: sql.ErrTxDone}
	} else {
		r = queryRow(DB(t.db), t.staged, query, args)
	}
	Log(Ev{K: "db.tx.query"})
	boundary()
	return r
}

//wsym:replace (*database/sql.DB).QueryRow
func DBQueryRow(db *sql.DB, query string, args ...any) *sql.Row {
	s := DB(db)
	boundary()
	acquire(s)
	r := queryRow(s, nil, query, args)
	release(s)
	Log(Ev{K: "db.query"})
	boundary()
	return r
}

//wsym:replace (*database/sql.Row).Err
func RowErr(r *sql.Row) error { return rowSts[r].err }

//wsym:replace (*database/sql.Row).Scan
func RowScan(r *sql.Row, dest ...any) error {
	st := rowSts[r]
	if st.err != nil {
		return st.err
	}
	if !st.found {
		return sql.ErrNoRows
	}
	if len(dest) != 1 {
		return errDB
	}
	switch d := dest[0].(type) {
	case *[]byte:
		if st.isKey {
			*d = []byte(st.key)
		} else {
			*d = st.val // NULL scans into a nil slice
		}
	case *string:
		if st.isKey {
			*d = st.key
		} else if st.val == nil {
			return errDB // converting NULL to string is unsupported
		} else {
			*d = string(st.val)
		}
	default:
		Unsupported("Row.Scan into an unsupported destination type")
	}
	return nil
}

func execStmt(s *DBState, staged *[]dbOp, query string, args []any) (int64, error) {
	op, conflict, cols, where := SQLParse(query)
	nul := where / 4
	where %= 4
	whereKey := where >= 1
	var cur []dbOp
	if staged != nil {
		cur = *staged
	}
	put := func(key string, row dbRow) {
		if staged != nil {
			*staged = append(*staged, dbOp{key: key, row: row})
		} else {
			s.Table[key] = row
		}
	}
	switch op {
	case 1: // CREATE TABLE IF NOT EXISTS
		if staged != nil {
			Unsupported("CREATE TABLE inside a transaction")
		}
		s.Created = true
		return 0, nil
	case 3: // INSERT [OR REPLACE | OR IGNORE] INTO chkpts (cols) VALUES (?...)
		if !s.Created || len(args) != len(cols) {
			return 0, errDB
		}
		var key string
		haveKey := false
		row := dbRow{}
		for i, c := range cols {
			switch c {
			case colLogID:
				k, ok := args[i].(string)
				if !ok {
					Unsupported("INSERT with a non-string logID")
				}
				key, haveKey = k, true
			case colChkpt:
				v, ok := args[i].([]byte)
				if !ok {
					Unsupported("INSERT with a non-[]byte chkpt")
				}
				row.Chkpt = v
			}
		}
		if !haveKey {
			Unsupported("INSERT without a logID (NULL primary key)")
		}
		_, exists := lookupIn(s, cur, key)
		if exists {
			switch conflict {
			case 0:
				return 0, errDB // UNIQUE constraint failed
			case 2:
				return 0, nil // OR IGNORE
			}
		}
		put(key, row)
		return 1, nil
	case 4: // UPDATE chkpts SET col = ? ... WHERE logID = ?
		if !s.Created || where != 1 || len(args) != len(cols)+1 {
			if where != 1 {
				Unsupported("UPDATE without a plain WHERE logID = ?")
			}
			return 0, errDB
		}
		key, ok := args[len(cols)].(string)
		if !ok {
			// SQLite is dynamically typed: a BLOB never equals the TEXT keys this table holds
			if _, isBytes := args[len(cols)].([]byte); isBytes {
				return 0, nil
			}
			Unsupported("UPDATE with a key of an unsupported type")
		}
		row, exists := lookupIn(s, cur, key)
		if !exists || !nullOK(row, nul) {
			return 0, nil // no row matches: nothing happens, no error
		}
		for i, c := range cols {
			switch c {
			case colChkpt:
				v, ok := args[i].([]byte)
				if !ok {
					sv, isStr := args[i].(string)
					if !isStr {
						Unsupported("UPDATE with a chkpt value of an unsupported type")
					}
					v = []byte(sv) // stored as TEXT, read back as the same bytes
				}
				row.Chkpt = v
			case colLogID:
				Unsupported("UPDATE of the primary key")
			}
		}
		put(key, row)
		return 1, nil
	case 5: // DELETE FROM chkpts WHERE logID = ?
		if !s.Created {
			return 0, errDB
		}
		if !whereKey || len(args) != where {
			Unsupported("DELETE without WHERE logID = ?")
		}
		key, ok := args[0].(string)
		if !ok {
			Unsupported("DELETE with a non-string key")
		}
		row, exists := lookupIn(s, cur, key)
		if !exists || !nullOK(row, nul) {
			return 0, nil
		}
		if where == 2 {
			// ... AND chkpt = ?  (NULL never compares equal)
			want, ok := args[1].([]byte)
			if !ok {
				Unsupported("DELETE ... AND chkpt = ? with a non-[]byte value")
			}
			if row.Chkpt == nil || want == nil || !Eq(row.Chkpt, want) {
				return 0, nil
			}
		}
		if staged != nil {
			*staged = append(*staged, dbOp{del: true, key: key})
		} else {
			delete(s.Table, key)
		}
		return 1, nil
	}
	Unsupported("Exec with an unrecognised SQL statement")
	return 0, nil
}

//wsym:replace (*database/sql.Tx).Exec
func TxExec(tx *sql.Tx, query string, args ...any) (sql.Result, error) {
	t := txs[tx]
	boundary()
	if t.done {
		boundary()
		return nil, sql.ErrTxDone
	}
	if fault("exec") {
		boundary()
		return nil, errDB
	}
	n, err := execStmt(DB(t.db), &t.staged, query, args)
	Log(Ev{K: "db.tx.exec"})
	boundary()
	if err != nil {
		return nil, err
	}
	return &SQLResult{N: n}, nil
}

//wsym:replace (*database/sql.DB).Exec
func DBExec(db *sql.DB, query string, args ...any) (sql.Result, error) {
	s := DB(db)
	boundary()
	acquire(s)
	if fault("exec") {
		release(s)
		boundary()
		return nil, errDB
	}
	n, err := execStmt(s, nil, query, args)
	release(s)
	Log(Ev{K: "db.exec"})
	boundary()
	if err != nil {
		return nil, err
	}
	return &SQLResult{N: n}, nil
}

//wsym:replace (*database/sql.Tx).Commit
func TxCommit(tx *sql.Tx) error {
	t := txs[tx]
	boundary()
	if t.done {
		return sql.ErrTxDone
	}
	s := DB(t.db)
	t.done = true
	s.OpenTx--
	if fault("commit") {
		t.staged = nil
		release(s)
		boundary()
		return errDB
	}
	// the atomic commit point
	for _, op := range t.staged {
		if op.del {
			delete(s.Table, op.key)
		} else {
			s.Table[op.key] = op.row
		}
	}
	t.staged = nil
	Log(Ev{K: "db.commit"})
	release(s)
	boundary()
	return nil
}

//wsym:replace (*database/sql.Tx).Rollback
func TxRollback(tx *sql.Tx) error {
	t := txs[tx]
	boundary()
	if t.done {
		return sql.ErrTxDone
	}
	s := DB(t.db)
	t.done = true
	t.staged = nil
	s.OpenTx--
	Log(Ev{K: "db.rollback"})
	release(s)
	boundary()
	if fault("rollback") {
		return errDB
	}
	return nil
}

// rowsFor evaluates a SELECT of one column, with or without WHERE logID = ?, into a row set.
func rowsFor(s *DBState, staged []dbOp, query string, args []any) (*rowsState, bool) {
	op, _, cols, where := SQLParse(query)
	nul := where / 4
	where %= 4
	if op != 2 || len(cols) != 1 || where == 2 {
		Unsupported("Query with an unrecognised SQL statement")
	}
	whereKey := where == 1
	if !s.Created {
		return nil, false
	}
	st := &rowsState{}
	if whereKey {
		if len(args) != 1 {
			return nil, false
		}
		key, ok := args[0].(string)
		if !ok {
			Unsupported("SELECT with a non-string key")
		}
		row, found := lookupIn(s, staged, key)
		if found && nullOK(row, nul) {
			if cols[0] == colLogID {
				st.vals = append(st.vals, key)
				st.null = append(st.null, false)
			} else if cols[0] == colChkpt {
				st.vals = append(st.vals, string(row.Chkpt))
				st.null = append(st.null, row.Chkpt == nil)
			} else {
				st.vals = append(st.vals, "")
				st.null = append(st.null, true)
			}
		}
		return st, true
	}
	if cols[0] != colLogID {
		Unsupported("unfiltered SELECT of a column other than logID")
	}
	for k, row := range s.Table {
		if !nullOK(row, nul) {
			continue
		}
		st.vals = append(st.vals, k)
		st.null = append(st.null, false)
	}
	// (rows staged in an open transaction are not listed: the repository never lists inside one)
	return st, true
}

//wsym:replace (*database/sql.DB).Query
func DBQuery(db *sql.DB, query string, args ...any) (*sql.Rows, error) {
	s := DB(db)
	boundary()
	acquire(s)
	if fault("query") {
		release(s)
		boundary()
		return nil, errDB
	}
	st, ok := rowsFor(s, nil, query, args)
	if !ok {
		release(s)
		boundary()
		return nil, errDB
	}
	st.db, st.holds = db, true
	rs := &sql.Rows{}
	rowsS[rs] = st
	boundary()
	return rs, nil
}

//wsym:replace (*database/sql.Tx).Query
func TxQuery(tx *sql.Tx, query string, args ...any) (*sql.Rows, error) {
	t := txs[tx]
	boundary()
	if t.done {
		boundary()
		return nil, sql.ErrTxDone
	}
	if fault("query") {
		boundary()
		return nil, errDB
	}
	st, ok := rowsFor(DB(t.db), t.staged, query, args)
	if !ok {
		boundary()
		return nil, errDB
	}
	st.db = t.db // the transaction's own connection: nothing extra is held
	rs := &sql.Rows{}
	rowsS[rs] = st
	Log(Ev{K: "db.tx.query"})
	boundary()
	return rs, nil
}

//wsym:replace (*database/sql.Rows).Next
func RowsNext(rs *sql.Rows) bool {
	st := rowsS[rs]
	if st.closed {
		return false
	}
	if st.i < len(st.vals) {
		if fault("rows.next") {
			st.err = errDB
			RowsClose(rs)
			return false
		}
		st.i++
		return true
	}
	RowsClose(rs)
	return false
}

//wsym:replace (*database/sql.Rows).Scan
func RowsScan(rs *sql.Rows, dest ...any) error {
	st := rowsS[rs]
	if st.closed || st.i == 0 || len(dest) != 1 {
		return errDB
	}
	isNull := st.null[st.i-1]
	switch d := dest[0].(type) {
	case *string:
		if isNull {
			return errDB
		}
		*d = st.vals[st.i-1]
	case *[]byte:
		if isNull {
			*d = nil
		} else {
			*d = []byte(st.vals[st.i-1])
		}
	default:
		Unsupported("Rows.Scan into an unsupported destination type")
	}
	return nil
}

//wsym:replace (*database/sql.Rows).Err
func RowsErr(rs *sql.Rows) error { return rowsS[rs].err }

//wsym:replace (*database/sql.Rows).Close
func RowsClose(rs *sql.Rows) error {
	st := rowsS[rs]
	if !st.closed {
		st.closed = true
		if st.holds {
			release(DB(st.db))
		}
	}
	return nil
}

// SQLResult models sql.Result.
type SQLResult struct{ N int64 }

func (r *SQLResult) LastInsertId() (int64, error) { return 0, nil }
func (r *SQLResult) RowsAffected() (int64, error) { return r.N, nil }

//wsym:replace (*database/sql.DB).SetMaxIdleConns
func DBSetMaxIdleConns(db *sql.DB, n int) {}

//wsym:replace (*database/sql.DB).Close
func DBClose(db *sql.DB) error { return nil }
