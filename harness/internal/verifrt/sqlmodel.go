//go:build verifsym

package verifrt

import (
	"context"
	"database/sql"
	"errors"
	"strings"
)

// Contract model of database/sql over SQLite for the statements the repository issues.
//
// A-db: a transaction's writes become visible and durable atomically when
// Commit succeeds; a failed Commit, a Rollback or a crash applies none of them;
// statements outside a transaction autocommit; the pool hands out at most
// MaxOpen connections (a Tx or an open Rows holds one until it is finished).

type dbOp struct {
	del bool
	key string
	row dbRow
}

type DBState struct {
	Table   map[string]dbRow
	Created bool
	InUse   int // connections held by open transactions / row sets
	MaxOpen int // 0 = unlimited
	OpenTx  int
	// Sess is the transaction state that plain BEGIN / SAVEPOINT statements leave on THE pooled
	// connection (modelled for a pool of exactly one connection): it survives the connection's
	// return to the pool, and every later statement on that connection runs inside it.
	Sess *sessState
}

type sessState struct {
	staged []dbOp
	marks  []int // length of staged at each open savepoint; a plain BEGIN has none
}

type txState struct {
	db     *sql.DB
	staged []dbOp
	done   bool
}

// cell is one selected value: the logID column is TEXT, the others are BLOBs or NULL.
type cell struct {
	isKey bool
	key   string
	val   []byte // nil = NULL
}

type rowState struct {
	err   error
	found bool
	cells []cell
}

type rowsState struct {
	db     *sql.DB
	holds  bool // holds a pooled connection of its own until closed
	rows   [][]cell
	i      int
	closed bool
	err    error
}

var (
	dbs    = map[*sql.DB]*DBState{}
	txs    = map[*sql.Tx]*txState{}
	rowSts = map[*sql.Row]*rowState{}
	rowsS  = map[*sql.Rows]*rowsState{}

	// Fault injection and crash points (armed by harnesses).
	DBFaults  bool
	CrashAt   int // boundary number at which the process is killed (0 = never)
	Boundary  int
	errDB     = errors.New("model: database error")
	errLocked = errors.New("model: database is locked")
)

// Column ids of table chkpts as reported by SQLParse.
const (
	colLogID = 1
	colChkpt = 2
	colRange = 3
)

// dbRow is one row; a nil column is SQL NULL.
type dbRow struct {
	Chkpt []byte
	Range []byte
}

// NewDB returns a fresh database handle with an empty store.
func NewDB(maxOpen int) *sql.DB {
	db := &sql.DB{}
	dbs[db] = &DBState{Table: map[string]dbRow{}, MaxOpen: maxOpen}
	return db
}

func DB(db *sql.DB) *DBState {
	s, ok := dbs[db]
	if !ok {
		Unsupported("*sql.DB that was not created by verifrt.NewDB")
	}
	return s
}

// Restart models a process restart after a crash: open transactions vanish.
func Restart(db *sql.DB) {
	s := DB(db)
	s.InUse = 0
	s.OpenTx = 0
	s.Sess = nil // an uncommitted session transaction dies with the process
	for _, t := range txs {
		if t.db == db {
			t.done = true
			t.staged = nil
		}
	}
}

// boundary is a driver-operation boundary: a crash may happen exactly here.
func boundary() {
	Boundary++
	if CrashAt == Boundary {
		Log(Ev{K: "crash", U: []uint64{uint64(Boundary)}})
		Crash()
	}
}

func fault(op string) bool {
	if DBFaults && Bool("dbfault") {
		Log(Ev{K: "dbfault", B: [][]byte{[]byte(op)}})
		return true
	}
	return false
}

// acquire takes a pooled connection, blocking while the pool is exhausted.
func acquire(s *DBState) {
	Yield()
	for s.MaxOpen > 0 && s.InUse >= s.MaxOpen {
		Block()
	}
	s.InUse++
}

func release(s *DBState) {
	s.InUse-- // no yield after a release (see models.go)
}

//wsym:replace (*database/sql.DB).SetMaxOpenConns
func DBSetMaxOpenConns(db *sql.DB, n int) {
	DB(db).MaxOpen = n
	Log(Ev{K: "SetMaxOpenConns", U: []uint64{uint64(n)}})
}

//wsym:replace (*database/sql.DB).Begin
func DBBegin(db *sql.DB) (*sql.Tx, error) {
	s := DB(db)
	boundary()
	acquire(s)
	if fault("begin") {
		release(s)
		boundary()
		return nil, errDB
	}
	if s.Sess != nil {
		// the pooled connection is still inside a transaction somebody left open
		release(s)
		boundary()
		return nil, errDB // SQLite: cannot start a transaction within a transaction
	}
	tx := &sql.Tx{}
	txs[tx] = &txState{db: db}
	s.OpenTx++
	Log(Ev{K: "db.begin"})
	boundary()
	return tx, nil
}

// view is what a statement sees: the committed table overlaid with the operations staged by its
// own transaction, in insertion order.
func view(s *DBState, staged []dbOp) (keys []string, rows []dbRow) {
	for k, r := range s.Table {
		keys = append(keys, k)
		rows = append(rows, r)
	}
	for _, op := range staged {
		at := -1
		for i, k := range keys {
			if k == op.key {
				at = i
			}
		}
		switch {
		case op.del && at >= 0:
			keys = append(keys[:at:at], keys[at+1:]...)
			rows = append(rows[:at:at], rows[at+1:]...)
		case op.del:
		case at >= 0:
			rows[at] = op.row
		default:
			keys = append(keys, op.key)
			rows = append(rows, op.row)
		}
	}
	return
}

// lookupIn finds the row with the given key as a statement of the transaction sees it.
func lookupIn(s *DBState, staged []dbOp, key string) (dbRow, bool) {
	for i := len(staged) - 1; i >= 0; i-- {
		if staged[i].key == key {
			if staged[i].del {
				return dbRow{}, false
			}
			return staged[i].row, true
		}
	}
	v, ok := s.Table[key]
	return v, ok
}

// candidates are the rows a WHERE clause can match, with the clause that is left to evaluate on
// them: a clause that starts with "logID = ?" (every statement of the repository) selects by
// primary key; anything else scans the table.
func candidates(s *DBState, staged []dbOp, conds []int, args []any) (keys []string, rows []dbRow, rest []int, restArgs []any) {
	if len(conds) > 0 && conds[0] == colLogID*10+1 && len(args) > 0 {
		if ks, ok := args[0].(string); ok {
			if row, found := lookupIn(s, staged, ks); found {
				keys, rows = []string{ks}, []dbRow{row}
			}
			return keys, rows, conds[1:], args[1:]
		}
	}
	keys, rows = view(s, staged)
	return keys, rows, conds, args
}

func colOf(row dbRow, c int) []byte {
	switch c {
	case colChkpt:
		return row.Chkpt
	case colRange:
		return row.Range
	}
	return nil
}

// matches evaluates a WHERE conjunction on one row; args are the placeholders of the clause in
// order. SQLite is dynamically typed: a BLOB argument never equals the TEXT keys of this table,
// and NULL never compares equal to anything.
func matches(key string, row dbRow, conds []int, args []any) bool {
	ai := 0
	for _, cd := range conds {
		c, kind := cd/10, cd%10
		switch kind {
		case 1: // col = ?
			if ai >= len(args) {
				Unsupported("WHERE clause with more placeholders than arguments")
			}
			a := args[ai]
			ai++
			if c == colLogID {
				ks, ok := a.(string)
				if !ok {
					if _, isBytes := a.([]byte); isBytes || a == nil {
						return false
					}
					Unsupported("comparison of logID with a value of an unsupported type")
				}
				if key != ks {
					return false
				}
			} else {
				v := colOf(row, c)
				want, ok := a.([]byte)
				if !ok {
					if a == nil {
						return false
					}
					Unsupported("comparison of a BLOB column with a non-[]byte value")
				}
				if v == nil || want == nil || !Eq(v, want) {
					return false
				}
			}
		case 4: // col = ? COLLATE NOCASE: ASCII case folding, on the TEXT key only
			if ai >= len(args) {
				Unsupported("WHERE clause with more placeholders than arguments")
			}
			a := args[ai]
			ai++
			ks, ok := a.(string)
			if c != colLogID || !ok {
				Unsupported("COLLATE NOCASE comparison other than logID with a string")
			}
			if strings.ToLower(key) != strings.ToLower(ks) {
				return false
			}
		case 2: // IS NULL
			if c == colLogID || colOf(row, c) != nil {
				return false
			}
		case 3: // IS NOT NULL
			if c != colLogID && colOf(row, c) == nil {
				return false
			}
		}
	}
	return true
}

func nPlaceholders(conds []int) int {
	n := 0
	for _, cd := range conds {
		if cd%10 == 1 || cd%10 == 4 {
			n++
		}
	}
	return n
}

func cellsOf(key string, row dbRow, cols []int) []cell {
	var out []cell
	for _, c := range cols {
		if c == colLogID {
			out = append(out, cell{isKey: true, key: key})
		} else {
			out = append(out, cell{val: colOf(row, c)})
		}
	}
	return out
}

// selectRows evaluates SELECT cols FROM chkpts [WHERE ...].
func selectRows(s *DBState, staged []dbOp, query string, args []any) ([][]cell, bool) {
	op, _, cols, _, conds := SQLParse(query)
	if op != 2 || len(cols) == 0 {
		Unsupported("query with an unrecognised SQL statement")
	}
	if !s.Created || len(args) != nPlaceholders(conds) {
		return nil, false // no such table / wrong number of bind arguments
	}
	keys, rows, conds, args := candidates(s, staged, conds, args)
	var out [][]cell
	for i := range keys {
		if matches(keys[i], rows[i], conds, args) {
			out = append(out, cellsOf(keys[i], rows[i], cols))
		}
	}
	return out, true
}

func queryRow(s *DBState, staged []dbOp, query string, args []any) *sql.Row {
	r := &sql.Row{}
	st := &rowState{}
	rowSts[r] = st
	if fault("query") {
		st.err = errDB
		return r
	}
	rows, ok := selectRows(s, staged, query, args)
	if !ok {
		st.err = errDB
		return r
	}
	if len(rows) > 0 {
		st.found, st.cells = true, rows[0]
	}
	return r
}

//wsym:replace (*database/sql.Tx).QueryRow
func TxQueryRow(tx *sql.Tx, query string, args ...any) *sql.Row {
	t := txs[tx]
	boundary()
	var r *sql.Row
	if t.done {
		r = &sql.Row{}
		rowSts[r] = &rowState{err: sql.ErrTxDone}
	} else {
		r = queryRow(DB(t.db), t.staged, query, args)
	}
	Log(Ev{K: "db.tx.query"})
	boundary()
	return r
}

//wsym:replace (*database/sql.DB).QueryRow
func DBQueryRow(db *sql.DB, query string, args ...any) *sql.Row {
	s := DB(db)
	boundary()
	acquire(s)
	r := queryRow(s, sessView(s), query, args)
	release(s)
	Log(Ev{K: "db.query"})
	boundary()
	return r
}

//wsym:replace (*database/sql.Row).Err
func RowErr(r *sql.Row) error { return rowSts[r].err }

//wsym:replace (*database/sql.Row).Scan
func RowScan(r *sql.Row, dest ...any) error {
	st := rowSts[r]
	if st.err != nil {
		return st.err
	}
	if !st.found {
		return sql.ErrNoRows
	}
	return scanCells(st.cells, dest)
}

func scanCells(cells []cell, dest []any) error {
	if len(dest) != len(cells) {
		return errDB
	}
	for i, c := range cells {
		switch d := dest[i].(type) {
		case *[]byte:
			if c.isKey {
				*d = []byte(c.key)
			} else {
				*d = c.val // NULL scans into a nil slice
			}
		case *string:
			if c.isKey {
				*d = c.key
			} else if c.val == nil {
				return errDB // converting NULL to string is unsupported
			} else {
				*d = string(c.val)
			}
		default:
			Unsupported("Scan into an unsupported destination type")
		}
	}
	return nil
}

// bindValue turns a bind argument into a column value (nil = NULL). TEXT written into a BLOB
// column reads back as the same bytes.
func bindValue(a any) []byte {
	switch v := a.(type) {
	case nil:
		return nil
	case []byte:
		return v
	case string:
		return []byte(v)
	}
	Unsupported("bind argument of an unsupported type")
	return nil
}

// sessionControl executes SAVEPOINT / RELEASE / ROLLBACK TO / BEGIN / COMMIT / ROLLBACK written
// as plain statements on the pooled connection.
func sessionControl(s *DBState, op int) (int64, error) {
	if s.MaxOpen != 1 {
		Unsupported("plain transaction-control statements with a pool other than one connection")
	}
	switch op {
	case 6: // SAVEPOINT: opens a transaction if none is open
		if s.Sess == nil {
			s.Sess = &sessState{}
		}
		s.Sess.marks = append(s.Sess.marks, len(s.Sess.staged))
	case 7: // RELEASE: the outermost one commits
		if s.Sess == nil || len(s.Sess.marks) == 0 {
			return 0, errDB // no such savepoint
		}
		s.Sess.marks = s.Sess.marks[:len(s.Sess.marks)-1]
		if len(s.Sess.marks) == 0 {
			commitOps(s, s.Sess.staged)
			s.Sess = nil
			Log(Ev{K: "db.commit"})
		}
	case 8: // ROLLBACK TO: undoes back to the savepoint; the savepoint and the transaction stay
		if s.Sess == nil || len(s.Sess.marks) == 0 {
			return 0, errDB
		}
		s.Sess.staged = s.Sess.staged[:s.Sess.marks[len(s.Sess.marks)-1]]
	case 9: // BEGIN
		if s.Sess != nil {
			return 0, errDB
		}
		s.Sess = &sessState{}
	case 10: // COMMIT
		if s.Sess == nil {
			return 0, errDB
		}
		commitOps(s, s.Sess.staged)
		s.Sess = nil
		Log(Ev{K: "db.commit"})
	case 11: // ROLLBACK
		if s.Sess == nil {
			return 0, errDB
		}
		s.Sess = nil
	}
	return 0, nil
}

func commitOps(s *DBState, ops []dbOp) {
	for _, op := range ops {
		if op.del {
			delete(s.Table, op.key)
		} else {
			s.Table[op.key] = op.row
		}
	}
}

// sessStaged is where a statement outside a database/sql transaction stages its writes: the
// session transaction if one is open on the connection, else nowhere (auto-commit).
func sessStaged(s *DBState) *[]dbOp {
	if s.Sess != nil {
		return &s.Sess.staged
	}
	return nil
}

func sessView(s *DBState) []dbOp {
	if s.Sess != nil {
		return s.Sess.staged
	}
	return nil
}

func execStmt(s *DBState, staged *[]dbOp, query string, args []any) (int64, error) {
	op, conflict, cols, lits, conds := SQLParse(query)
	if op >= 6 {
		if staged != nil && staged != sessStaged(s) {
			Unsupported("plain transaction-control statement inside a database/sql transaction")
		}
		return sessionControl(s, op)
	}
	var cur []dbOp
	if staged != nil {
		cur = *staged
	}
	put := func(key string, row dbRow) {
		if staged != nil {
			*staged = append(*staged, dbOp{key: key, row: row})
		} else {
			s.Table[key] = row
		}
	}
	del := func(key string) {
		if staged != nil {
			*staged = append(*staged, dbOp{del: true, key: key})
		} else {
			delete(s.Table, key)
		}
	}
	nSet := 0
	for _, l := range lits {
		if l == 0 {
			nSet++
		}
	}
	switch op {
	case 1: // CREATE TABLE IF NOT EXISTS
		if staged != nil {
			Unsupported("CREATE TABLE inside a transaction")
		}
		s.Created = true
		return 0, nil
	case 3: // INSERT [OR REPLACE | OR IGNORE] INTO chkpts (cols) VALUES (?|NULL ...)
		if !s.Created || len(args) != nSet {
			return 0, errDB
		}
		var key string
		haveKey := false
		row := dbRow{}
		ai := 0
		for i, c := range cols {
			var a any
			if lits[i] == 0 {
				a = args[ai]
				ai++
			}
			switch c {
			case colLogID:
				k, ok := a.(string)
				if !ok {
					Unsupported("INSERT with a non-string logID")
				}
				key, haveKey = k, true
			case colChkpt:
				row.Chkpt = bindValue(a)
			case colRange:
				row.Range = bindValue(a)
			}
		}
		if !haveKey {
			Unsupported("INSERT without a logID (NULL primary key)")
		}
		_, exists := lookupIn(s, cur, key)
		if exists {
			switch conflict {
			case 0:
				return 0, errDB // UNIQUE constraint failed
			case 2:
				return 0, nil // OR IGNORE
			}
		}
		put(key, row)
		return 1, nil
	case 4: // UPDATE chkpts SET col = ?|NULL ... [WHERE ...]
		if !s.Created || len(args) != nSet+nPlaceholders(conds) {
			return 0, errDB
		}
		keys, rows, rest, restArgs := candidates(s, cur, conds, args[nSet:])
		var n int64
		for i := range keys {
			if !matches(keys[i], rows[i], rest, restArgs) {
				continue
			}
			row := rows[i]
			ai := 0
			for j, c := range cols {
				var a any
				if lits[j] == 0 {
					a = args[ai]
					ai++
				}
				switch c {
				case colChkpt:
					row.Chkpt = bindValue(a)
				case colRange:
					row.Range = bindValue(a)
				case colLogID:
					Unsupported("UPDATE of the primary key")
				}
			}
			put(keys[i], row)
			n++
		}
		return n, nil
	case 5: // DELETE FROM chkpts [WHERE ...]
		if !s.Created || len(args) != nPlaceholders(conds) {
			return 0, errDB
		}
		keys, rows, rest, restArgs := candidates(s, cur, conds, args)
		var n int64
		for i := range keys {
			if matches(keys[i], rows[i], rest, restArgs) {
				del(keys[i])
				n++
			}
		}
		return n, nil
	}
	Unsupported("Exec with an unrecognised SQL statement")
	return 0, nil
}

//wsym:replace (*database/sql.Tx).Exec
func TxExec(tx *sql.Tx, query string, args ...any) (sql.Result, error) {
	t := txs[tx]
	boundary()
	if t.done {
		boundary()
		return nil, sql.ErrTxDone
	}
	if fault("exec") {
		boundary()
		return nil, errDB
	}
	n, err := execStmt(DB(t.db), &t.staged, query, args)
	Log(Ev{K: "db.tx.exec"})
	boundary()
	if err != nil {
		return nil, err
	}
	return &SQLResult{N: n}, nil
}

//wsym:replace (*database/sql.DB).Exec
func DBExec(db *sql.DB, query string, args ...any) (sql.Result, error) {
	s := DB(db)
	boundary()
	acquire(s)
	if fault("exec") {
		release(s)
		boundary()
		return nil, errDB
	}
	n, err := execStmt(s, sessStaged(s), query, args)
	release(s)
	Log(Ev{K: "db.exec"})
	boundary()
	if err != nil {
		return nil, err
	}
	return &SQLResult{N: n}, nil
}

//wsym:replace (*database/sql.Tx).Commit
func TxCommit(tx *sql.Tx) error {
	t := txs[tx]
	boundary()
	if t.done {
		return sql.ErrTxDone
	}
	s := DB(t.db)
	t.done = true
	s.OpenTx--
	if fault("commit") {
		t.staged = nil
		release(s)
		boundary()
		return errDB
	}
	// the atomic commit point
	commitOps(s, t.staged)
	t.staged = nil
	Log(Ev{K: "db.commit"})
	release(s)
	boundary()
	return nil
}

//wsym:replace (*database/sql.Tx).Rollback
func TxRollback(tx *sql.Tx) error {
	t := txs[tx]
	boundary()
	if t.done {
		return sql.ErrTxDone
	}
	s := DB(t.db)
	t.done = true
	t.staged = nil
	s.OpenTx--
	Log(Ev{K: "db.rollback"})
	release(s)
	boundary()
	if fault("rollback") {
		return errDB
	}
	return nil
}

// rowsFor evaluates a SELECT into a row set.
// (Rows staged in an open transaction are seen by that transaction's own queries only.)
func rowsFor(s *DBState, staged []dbOp, query string, args []any) (*rowsState, bool) {
	rows, ok := selectRows(s, staged, query, args)
	if !ok {
		return nil, false
	}
	return &rowsState{rows: rows}, true
}

//wsym:replace (*database/sql.DB).Query
func DBQuery(db *sql.DB, query string, args ...any) (*sql.Rows, error) {
	s := DB(db)
	boundary()
	acquire(s)
	if fault("query") {
		release(s)
		boundary()
		return nil, errDB
	}
	st, ok := rowsFor(s, sessView(s), query, args)
	if !ok {
		release(s)
		boundary()
		return nil, errDB
	}
	st.db, st.holds = db, true
	rs := &sql.Rows{}
	rowsS[rs] = st
	boundary()
	return rs, nil
}

//wsym:replace (*database/sql.Tx).Query
func TxQuery(tx *sql.Tx, query string, args ...any) (*sql.Rows, error) {
	t := txs[tx]
	boundary()
	if t.done {
		boundary()
		return nil, sql.ErrTxDone
	}
	if fault("query") {
		boundary()
		return nil, errDB
	}
	st, ok := rowsFor(DB(t.db), t.staged, query, args)
	if !ok {
		boundary()
		return nil, errDB
	}
	st.db = t.db // the transaction's own connection: nothing extra is held
	rs := &sql.Rows{}
	rowsS[rs] = st
	Log(Ev{K: "db.tx.query"})
	boundary()
	return rs, nil
}

//wsym:replace (*database/sql.Rows).Next
func RowsNext(rs *sql.Rows) bool {
	st := rowsS[rs]
	if st.closed {
		return false
	}
	if st.i < len(st.rows) {
		if fault("rows.next") {
			st.err = errDB
			RowsClose(rs)
			return false
		}
		st.i++
		return true
	}
	RowsClose(rs)
	return false
}

//wsym:replace (*database/sql.Rows).Scan
func RowsScan(rs *sql.Rows, dest ...any) error {
	st := rowsS[rs]
	if st.closed || st.i == 0 {
		return errDB
	}
	return scanCells(st.rows[st.i-1], dest)
}

//wsym:replace (*database/sql.Rows).Err
func RowsErr(rs *sql.Rows) error { return rowsS[rs].err }

//wsym:replace (*database/sql.Rows).Close
func RowsClose(rs *sql.Rows) error {
	st := rowsS[rs]
	if !st.closed {
		st.closed = true
		if st.holds {
			release(DB(st.db))
		}
	}
	return nil
}

// SQLResult models sql.Result.
type SQLResult struct{ N int64 }

func (r *SQLResult) LastInsertId() (int64, error) { return 0, nil }
func (r *SQLResult) RowsAffected() (int64, error) { return r.N, nil }

//wsym:replace (*database/sql.DB).SetMaxIdleConns
func DBSetMaxIdleConns(db *sql.DB, n int) {}

//wsym:replace (*database/sql.DB).Close
func DBClose(db *sql.DB) error { return nil }

// ---- a pinned pool connection ----

var conns = map[*sql.Conn]*sql.DB{}
var connClosed = map[*sql.Conn]bool{}

//wsym:replace (*database/sql.DB).Conn
func DBConn(db *sql.DB, ctx context.Context) (*sql.Conn, error) {
	s := DB(db)
	boundary()
	acquire(s)
	if fault("conn") {
		release(s)
		boundary()
		return nil, errDB
	}
	c := &sql.Conn{}
	conns[c] = db
	boundary()
	return c, nil
}

//wsym:replace (*database/sql.Conn).Close
func ConnClose(c *sql.Conn) error {
	if connClosed[c] {
		return sql.ErrConnDone
	}
	connClosed[c] = true
	release(DB(conns[c])) // the connection goes back to the pool as it is (session state included)
	return nil
}

//wsym:replace (*database/sql.Conn).ExecContext
func ConnExecContext(c *sql.Conn, ctx context.Context, query string, args ...any) (sql.Result, error) {
	if connClosed[c] {
		return nil, sql.ErrConnDone
	}
	s := DB(conns[c])
	boundary()
	if fault("exec") {
		boundary()
		return nil, errDB
	}
	n, err := execStmt(s, sessStaged(s), query, args)
	Log(Ev{K: "db.conn.exec"})
	boundary()
	if err != nil {
		return nil, err
	}
	return &SQLResult{N: n}, nil
}

//wsym:replace (*database/sql.Conn).QueryRowContext
func ConnQueryRowContext(c *sql.Conn, ctx context.Context, query string, args ...any) *sql.Row {
	s := DB(conns[c])
	boundary()
	var r *sql.Row
	if connClosed[c] {
		r = &sql.Row{}
		rowSts[r] = &rowState{err: sql.ErrConnDone}
	} else {
		r = queryRow(s, sessView(s), query, args)
	}
	boundary()
	return r
}
