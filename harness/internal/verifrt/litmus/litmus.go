//go:build verifsym

// Package litmus holds small functions that exercise each SSA instruction kind
// of the executor; every assertion here must be discharged and every cover reached.
package litmus

import (
	"errors"
	"fmt"
	"math/bits"

	rt "github.com/transparency-dev/witness/internal/verifrt"
)

type pair struct {
	a, b uint64
	s    []int
}

type shape interface{ Area() uint64 }
type sq struct{ n uint64 }
type rect struct{ w, h uint64 }

func (s sq) Area() uint64    { return s.n * s.n }
func (r *rect) Area() uint64 { return r.w * r.h }

var errA = errors.New("a")
var errB = errors.New("b")

func sum(xs ...uint64) (t uint64) {
	for _, x := range xs {
		t += x
	}
	return
}

func deferOrder() (out []int) {
	defer func() { out = append(out, 3) }()
	for i := 0; i < 2; i++ {
		defer func(k int) { out = append(out, k) }(i)
	}
	return nil
}

func Arith() {
	x := rt.U64("x")
	y := rt.U64("y")
	rt.Assert(x+y == y+x, "L/add-comm")
	rt.Assert((x<<64) == 0, "L/shl-width")
	var s8 int8 = int8(rt.U8("b"))
	rt.Assert(int64(s8) >= -128 && int64(s8) <= 127, "L/sext")
	rt.Assert(uint64(uint8(x)) == x&0xff, "L/trunc")
	rt.Assert(uint64(bits.Len64(x)) <= 64, "L/len64")
	if x != 0 {
		rt.Assert(x>>uint(bits.Len64(x)-1) == 1, "L/len64-top")
		rt.Assert((x>>uint(bits.TrailingZeros64(x)))&1 == 1, "L/tz")
	}
	rt.Assert(bits.OnesCount64(x) <= 64, "L/popcnt")
	var i int = int(x)
	if i < 0 {
		rt.Cover(true, "L/neg-int")
		rt.Assert(i>>63 == -1, "L/ashr")
	}
	rt.Assert(x/8 == x>>3 && x%8 == x&7, "L/divconst")
	if uint8(y) != 0 {
		rt.Assert(uint8(x)/uint8(y)*uint8(y)+uint8(x)%uint8(y) == uint8(x), "L/divmod8")
	}
	rt.Cover(x > y && y > 5, "L/cover-gt")
	rt.Assert(x^x == 0, "L/xor")
	rt.Assert(x&^x == 0, "L/andnot")
}

func Structs() {
	p := pair{a: rt.U64("a"), b: 7}
	q := p
	q.a++
	rt.Assert(p.a+1 == q.a, "L/struct-copy")
	pp := &p
	pp.b = 9
	rt.Assert(p.b == 9, "L/ptr-field")
	arr := [3]uint64{1, 2, 3}
	brr := arr
	brr[1] = 5
	rt.Assert(arr[1] == 2 && brr[1] == 5, "L/array-copy")
	s := arr[:]
	s[0] = 42
	rt.Assert(arr[0] == 42, "L/slice-alias")
	t := append(s[:1], 100)
	rt.Assert(arr[1] == 100 && len(t) == 2, "L/append-inplace")
	u := append(s, 4)
	u[0] = 0
	rt.Assert(arr[0] == 42 && len(u) == 4, "L/append-grow")
	rt.Assert(sum(1, 2, 3) == 6 && sum() == 0, "L/variadic")
	d := deferOrder()
	rt.Assert(len(d) == 3 && d[0] == 1 && d[1] == 0 && d[2] == 3, "L/defer-order")
	var sh shape = sq{3}
	rt.Assert(sh.Area() == 9, "L/iface-val")
	sh = &rect{2, 5}
	rt.Assert(sh.Area() == 10, "L/iface-ptr")
	_, isSq := sh.(sq)
	r, isRect := sh.(*rect)
	rt.Assert(!isSq && isRect && r.w == 2, "L/typeassert")
	f := func(k uint64) uint64 { return k + p.a }
	rt.Assert(f(1) == p.a+1, "L/closure")
	g := sh.Area
	rt.Assert(g() == 10, "L/bound-method")
}

func Maps() {
	m := map[string]int{}
	k1 := rt.Str("k1")
	k2 := rt.Str("k2")
	m[k1] = 1
	m[k2] = 2
	if k1 == k2 {
		rt.Cover(true, "L/map-samekey")
		rt.Assert(len(m) == 1 && m[k1] == 2, "L/map-overwrite")
	} else {
		rt.Assert(len(m) == 2 && m[k1] == 1 && m[k2] == 2, "L/map-distinct")
	}
	_, ok := m["zzz"]
	rt.Cover(ok, "L/map-hit-lit")
	rt.Cover(!ok, "L/map-miss-lit")
	n := 0
	for range m {
		n++
	}
	rt.Assert(n == len(m), "L/map-range")
	delete(m, k1)
	_, ok = m[k1]
	rt.Assert(!ok, "L/map-delete")
	var nm map[string]int
	rt.Assert(nm["x"] == 0, "L/nil-map-read")
}

func Errors() {
	e := fmt.Errorf("wrap: %w", errA)
	rt.Assert(errors.Is(e, errA) && !errors.Is(e, errB), "L/errors-is")
	e2 := fmt.Errorf("nowrap: %v", errA)
	rt.Assert(!errors.Is(e2, errA), "L/errors-nowrap")
	rt.Assert(errA != errB, "L/sentinel-distinct")
	var err error
	rt.Assert(err == nil, "L/nil-err")
}

func BytesAlg() {
	a := rt.Bytes("a")
	b := rt.Bytes("b")
	n1 := rt.Ctor("node", a, b)
	n2 := rt.Ctor("node", b, a)
	if rt.Eq(n1, n2) {
		rt.Assert(rt.Eq(a, b), "L/ctor-injective")
		rt.Cover(true, "L/ctor-eq")
	}
	l := rt.Ctor("leaf", a)
	rt.Assert(!rt.Eq(l, n1), "L/ctor-disjoint")
	s := string(a)
	rt.Assert(s == string(a), "L/conv")
	rt.Assert(rt.UFU64("size", a) == rt.UFU64("size", a), "L/uf-fun")
	var nb []byte
	rt.Assert(nb == nil && len(nb) == 0, "L/nil-bytes")
	if len(a) == 0 {
		rt.Assert(string(a) == "", "L/empty-len")
	}
}

func Panics() {
	x := rt.Int("i")
	arr := []int{1, 2, 3}
	rt.Assume(x >= 0 && x < 4)
	_ = arr[x] // must be reported as a feasible panic for x == 3
}

func Loop() {
	n := rt.Int("n")
	rt.Assume(n >= 0 && n <= 5)
	t := 0
	for i := 0; i < n; i++ {
		t += i
	}
	rt.Assert(t == n*(n-1)/2, "L/loop-sum")
	c := rt.Choose(3)
	rt.Cover(c == 2, "L/choose-2")
}
