//go:build verifsym

package verifrt

import (
	"database/sql"
	"errors"
	"net"

	f_note "github.com/transparency-dev/formats/note"
	"golang.org/x/mod/sumdb/note"
)

// Contracts used only by H-MAIN (cmd/omniwitness.main executed symbolically).

var errStartup = errors.New("model: start-up step failed")

//wsym:replace flag.Parse
func FlagParse() {}

type Listener struct{ Addr_ string }

func (l *Listener) Accept() (net.Conn, error) { return nil, errStartup }
func (l *Listener) Close() error              { return nil }
func (l *Listener) Addr() net.Addr            { return nil }

//wsym:replace net.Listen
func NetListen(network, address string) (net.Listener, error) {
	if Bool("listen.fails") {
		return nil, errStartup
	}
	return &Listener{Addr_: address}, nil
}

// LastDB is the handle returned by the most recent sql.Open.
var LastDB *sql.DB
var SQLOpens int

//wsym:replace database/sql.Open
func SQLOpen(driver, dsn string) (*sql.DB, error) {
	Log(Ev{K: "sql.Open", B: [][]byte{[]byte(driver), []byte(dsn)}})
	if Bool("sqlopen.fails") {
		return nil, errStartup
	}
	SQLOpens++
	LastDB = NewDB(0) // database/sql's default: no limit on open connections
	return LastDB, nil
}

//wsym:replace golang.org/x/mod/sumdb/note.NewSigner
func NoteNewSigner(skey string) (note.Signer, error) {
	if !UFBool("signerKeyTextOK", skey) {
		return nil, errStartup
	}
	return &Signer{K: UFU64("legacyKeyOfText", skey), N: UFStr("nameOfText", skey)}, nil
}

// cosigSigners maps the opaque formats/note signer handles to their model.
var cosigSigners = map[*f_note.Signer]*Signer{}

//wsym:replace github.com/transparency-dev/formats/note.NewSignerForCosignatureV1
func NewSignerForCosignatureV1(skey string) (*f_note.Signer, error) {
	if !UFBool("signerKeyTextOK", skey) {
		return nil, errStartup
	}
	h := &f_note.Signer{}
	cosigSigners[h] = &Signer{K: UFU64("cosigKeyOfText", skey), N: UFStr("nameOfText", skey)}
	return h, nil
}

// CosigModel returns the model behind a formats/note signer handle.
func CosigModel(s *f_note.Signer) *Signer { return cosigSigners[s] }

//wsym:replace (*github.com/transparency-dev/formats/note.Signer).Verifier
func CosigVerifier(s *f_note.Signer) note.Verifier {
	m := cosigSigners[s]
	return &Verifier{K: m.K, N: m.N}
}
