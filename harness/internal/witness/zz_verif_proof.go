//go:build verifsym

package witness

import (
	rt "github.com/transparency-dev/witness/internal/verifrt"
)

// VerifProofRoundTrip: Unmarshal(Marshal(p)) == p for every list of hashes, including the empty list.
func VerifProofRoundTrip() {
	kmin := rt.Param("kmin", 0)
	k := kmin + rt.Choose(rt.Param("k", 2)-kmin+1)
	p := Proof{}
	if k == 0 && rt.Choose(2) == 1 {
		p = nil
	}
	for i := 0; i < k; i++ {
		if i > 0 && rt.Param("samehash", 0) == 1 {
			p = append(p, p[0]) // long-proof run: one arbitrary hash repeated
			continue
		}
		h := rt.Bytes("h")
		rt.Assume(string(h) != "" && rt.LenLE(string(h), 64)) // hashes of 1..64 bytes (the property's range)
		p = append(p, h)
	}
	rt.Name("proof.len", uint64(k))
	s := p.Marshal()
	var q Proof
	err := q.Unmarshal([]byte(s))
	rt.Cover(err == nil && k == 2, "proof/roundtrip-two")
	rt.Assert(err == nil, "C11/proof-reads-back")
	if err != nil {
		return
	}
	rt.Assert(len(q) == k, "C11/proof-length")
	if len(q) == k {
		for i := range p {
			rt.Assert(rt.Eq(q[i], p[i]), "C11/proof-hash")
		}
	}
}

// VerifProofUnmarshalArbitrary: arbitrary bytes parsed as a proof never panic; success means
// every line decoded.
func VerifProofUnmarshalArbitrary() {
	data := rt.Bytes("data")
	var q Proof
	err := q.Unmarshal(data)
	rt.Cover(err == nil && len(q) == 2, "proof/arbitrary-two-lines")
	rt.Cover(err != nil, "proof/arbitrary-refused")
	rt.Assert(err != nil || len(q) >= 0, "C19/proof-unmarshal-returns")
}
