//go:build verifsym

package witness

import (
	"context"

	rt "github.com/transparency-dev/witness/internal/verifrt"
	"google.golang.org/grpc/codes"
	"google.golang.org/grpc/status"
)

// outcome kinds of one operation
const (
	kAccept uint64 = iota + 1
	kUnknownLog
	kNoSig
	kOldSizeInvalid
	kStale
	kRootMismatch
	kInvalidProof
	kOther // non-sentinel error (storage error, signer failure, unparsable stored bytes)
	kGetFound
	kGetNotFound
)

type concOp struct {
	isGet   bool
	log     int
	oldSize uint64
	nextRaw []byte
	proof   [][]byte
	// observed
	out     []byte
	kind    uint64
	signed  []byte // the cosigned bytes this thread produced (if it got as far as signing)
	didSign bool
}

func verifKind(err error) uint64 {
	switch err {
	case nil:
		return kAccept
	case ErrUnknownLog:
		return kUnknownLog
	case ErrNoValidSignature:
		return kNoSig
	case ErrOldSizeInvalid:
		return kOldSizeInvalid
	case ErrCheckpointStale:
		return kStale
	case ErrRootMismatch:
		return kRootMismatch
	case ErrInvalidProof:
		return kInvalidProof
	}
	return kOther
}

// refStep is the sequential reference: given the state of the op's log it yields a
// single boolean saying "this op's observed outcome is what the reference produces here",
// plus the successor state. It never forks.
func refStep(c *verifCfg, op *concOp, has bool, cur []byte) (match bool, nhas bool, ncur []byte) {
	li := op.log
	if rt.Param("dbfaults", 0) == 1 && op.kind == kOther {
		// under injected storage faults any operation may fail with a storage error: no effect, no bytes
		return op.out == nil, has, cur
	}
	if op.isGet {
		m := rt.IteBool(has, rt.And(op.kind == kGetFound, rt.Eq(op.out, cur)), op.kind == kGetNotFound)
		return m, has, cur
	}
	// an update that got as far as signing but failed to store: a storage error with no effect
	if op.kind == kOther && op.didSign {
		return op.out == nil, has, cur // and it must not hand out the cosignature it failed to store
	}
	v := rt.Valid(op.nextRaw, c.origins[li], c.keys[li], nil)
	vp := rt.Valid(cur, c.origins[li], c.keys[li], nil)
	ns, ps := rt.CpSize(op.nextRaw), rt.CpSize(cur)
	sameRoot := rt.Eq(rt.CpHash(op.nextRaw), rt.CpHash(cur))
	var verdict bool
	verdict = rt.VCVerdict(ps, ns, len(op.proof), verifProofTerm(op.proof), rt.CpHash(cur), rt.CpHash(op.nextRaw))
	// expected kind as a chain of if-then-else terms (first matching rule)
	want := rt.IteU64(verdict, kAccept, kInvalidProof)
	zeroCase := rt.IteU64(len(op.proof) == 0, kAccept, kInvalidProof)
	want = rt.IteU64(rt.And(ns == 0, ps == 0), zeroCase, want)
	want = rt.IteU64(rt.And(ns == ps, !sameRoot), kRootMismatch, want)
	want = rt.IteU64(op.oldSize != ps, kStale, want)
	want = rt.IteU64(op.oldSize > ns, kOldSizeInvalid, want)
	want = rt.IteU64(!vp, kOther, want)
	want = rt.IteU64(!has, kAccept, want)
	want = rt.IteU64(!v, kNoSig, want)
	// a signer failure turns an accept into a non-sentinel error; nothing else may
	kindOK := rt.Or(op.kind == want, rt.And(want == kAccept, rt.And(op.kind == kOther, !op.didSign)))
	accepted := op.kind == kAccept
	// bytes: accepted -> own cosignature; refusals after a stored checkpoint -> that checkpoint; else nil
	retPrev := rt.And(has, rt.And(vp, rt.And(v, op.kind != kAccept)))
	retPrev = rt.And(retPrev, op.kind != kOther)
	var bytesOK bool
	if accepted {
		bytesOK = op.didSign && rt.Eq(op.out, op.signed)
	} else {
		bytesOK = rt.IteBool(retPrev, rt.And(op.out != nil, rt.Eq(op.out, cur)), op.out == nil)
	}
	if accepted {
		return rt.And(kindOK, bytesOK), true, op.signed
	}
	return rt.And(kindOK, bytesOK), has, cur
}

func verifPerms(k int) [][]int {
	switch k {
	case 1:
		return [][]int{{0}}
	case 2:
		return [][]int{{0, 1}, {1, 0}}
	case 3:
		return [][]int{{0, 1, 2}, {0, 2, 1}, {1, 0, 2}, {1, 2, 0}, {2, 0, 1}, {2, 1, 0}}
	}
	rt.Unsupported("more than 3 concurrent operations")
	return nil
}

// VerifConcurrent is H-CONC: k concurrent operations on one shared store, every
// interleaving at lock / database-operation granularity, checked for linearizability
// against the sequential reference.
func VerifConcurrent() {
	rt.InstallMetrics()
	nlogs := rt.Param("logs", 1)
	c := verifConfig(nlogs, rt.Param("signers", 1))
	store := verifStore()
	w, err := New(Opts{Persistence: store, Signers: c.signers, KnownLogs: c.logs})
	if err != nil {
		rt.Unsupported("New failed")
	}
	stored, prevs := verifPreload(store, c)
	k := rt.Param("threads", 2)
	ops := make([]*concOp, k)
	for i := 0; i < k; i++ {
		op := &concOp{log: rt.Choose(nlogs)}
		if rt.Param("gets", 1) == 1 && i > 0 && rt.Choose(2) == 1 {
			op.isGet = true
		} else {
			op.oldSize, op.nextRaw = rt.U64("oldSize"), rt.Bytes("nextRaw")
			op.proof = verifProof(rt.Param("maxproof", 1))
		}
		ops[i] = op
	}
	rt.ResetEvents()
	if rt.Param("dbfaults", 0) == 1 {
		rt.DBFaults = true // storage operations may fail while the operations overlap
	}
	for i := 0; i < k; i++ {
		op := ops[i]
		rt.Spawn(func() {
			id := c.ids[op.log]
			if op.isGet {
				b, e := w.GetCheckpoint(id)
				op.out = b
				if e == nil {
					op.kind = kGetFound
				} else if status.Code(e) == codes.NotFound {
					op.kind = kGetNotFound
				} else {
					op.kind = kOther
				}
				return
			}
			o, e := w.Update(context.Background(), id, op.oldSize, op.nextRaw, op.proof)
			op.out, op.kind = o, verifKind(e)
		})
	}
	rt.RunThreads()
	rt.DBFaults = false
	rt.Assert(!rt.Deadlocked(), "C05/no-deadlock")
	for _, e := range rt.Events {
		if e.K == "Sign" && e.T >= 1 && e.T <= k {
			ops[e.T-1].signed, ops[e.T-1].didSign = e.B[1], true
		}
	}
	// final state
	post := verifSnapshot(w, c)
	nAcc := 0
	for _, op := range ops {
		if !op.isGet && op.kind == kAccept {
			nAcc++
		}
	}
	rt.Cover(nAcc == k && k > 1 && ops[0].log == ops[k-1].log, "conc/all-accepted-same-log")
	rt.Cover(nAcc >= 1, "conc/some-accepted")
	conflict := false
	for _, op := range ops {
		if op.kind == kOther && op.didSign {
			conflict = true
		}
	}
	rt.Cover(conflict, "conc/storage-conflict")

	// some sequential order explains every outcome and the final state
	any := false
	for _, perm := range verifPerms(k) {
		has := append([]bool{}, stored...)
		cur := append([][]byte{}, prevs...)
		ok := true
		for _, i := range perm {
			op := ops[i]
			m, nh, nc := refStep(c, op, has[op.log], cur[op.log])
			ok = rt.And(ok, m)
			has[op.log], cur[op.log] = nh, nc
		}
		for l := 0; l < nlogs; l++ {
			ok = rt.And(ok, post.has[l] == has[l])
			if has[l] {
				ok = rt.And(ok, rt.Eq(post.raw[l], cur[l]))
			}
		}
		any = rt.Or(any, ok)
	}
	rt.Assert(any, "C05/linearizable")
}
