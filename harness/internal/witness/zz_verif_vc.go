//go:build verifsym

package witness

import (
	"fmt"

	"github.com/transparency-dev/merkle/proof"
	"github.com/transparency-dev/merkle/rfc6962"
	rt "github.com/transparency-dev/witness/internal/verifrt"
	"golang.org/x/mod/sumdb/tlog"
)

// verifSizes picks concrete 1 <= m <= n <= N by forking.
func verifSizes(N int) (m, n int) {
	n = rt.Choose(N) + 1
	m = rt.Choose(n) + 1
	return
}

func verifFreeProof(maxLen int) [][]byte {
	l := rt.Choose(maxLen + 1)
	p := [][]byte{}
	for i := 0; i < l; i++ {
		p = append(p, rt.Bytes("p"))
	}
	return p
}

func verifMaxProofLen(N int) int {
	l := 0
	for (1 << uint(l)) < N {
		l++
	}
	return l + 2
}

// VerifVCSound is H-VC soundness: whenever the real VerifyConsistency accepts a
// proof between Merkle tree hashes of two leaf lists, the first list is a prefix
// of the second. Proof elements are arbitrary (adversarial) terms.
func VerifVCSound() {
	N := rt.Param("n", 8)
	m, n := verifSizes(N)
	x := rt.Leaves("x", m)
	y := rt.Leaves("y", n)
	p := verifFreeProof(verifMaxProofLen(N))
	err := proof.VerifyConsistency(rfc6962.DefaultHasher, uint64(m), uint64(n), p, rt.MTH(x), rt.MTH(y))
	rt.Cover(err == nil && m < n, "vc/accepts-growth")
	rt.Cover(err == nil && m == n, "vc/accepts-equal")
	rt.Cover(err != nil, "vc/rejects")
	if err == nil {
		for i := 0; i < m; i++ {
			rt.Assert(rt.Eq(x[i], y[i]), "VC/sound-prefix")
		}
	}
}

// VerifVCAgree is H-VC agreement: the real merkle verifier and the independent
// x/mod tlog.CheckTree give the same verdict for every proof and every pair of roots.
func VerifVCAgree() {
	N := rt.Param("n", 8)
	m, n := verifSizes(N)
	r1, r2 := rt.Bytes("r1"), rt.Bytes("r2")
	p := verifFreeProof(verifMaxProofLen(N))
	err := proof.VerifyConsistency(rfc6962.DefaultHasher, uint64(m), uint64(n), p, r1, r2)
	tp := tlog.TreeProof{}
	for _, h := range p {
		tp = append(tp, tlog.Hash(rt.Hash32(h)))
	}
	terr := tlog.CheckTree(tp, int64(n), tlog.Hash(rt.Hash32(r2)), int64(m), tlog.Hash(rt.Hash32(r1)))
	rt.Cover(err == nil && terr == nil && m < n, "vc/both-accept")
	rt.Cover(err != nil && terr != nil, "vc/both-reject")
	rt.Assert((err == nil) == (terr == nil), "VC/agrees-with-tlog.CheckTree")
	// the facts the summary VCVerdict pins
	if m == n {
		rt.Assert((err == nil) == (len(p) == 0 && rt.Eq(r1, r2)), "VC/equal-sizes-rule")
	}
	if len(p) == 0 && m < n {
		rt.Assert(err != nil, "VC/empty-proof-rejected")
	}
	if m < n {
		rt.Assert(err != nil || len(p) == rt.VCWantLen(uint64(m), uint64(n)), "VC/length-rule")
	}
}

// VerifVCEdge checks the size-only decisions of VerifyConsistency for all 64-bit sizes.
func VerifVCEdge() {
	s1, s2 := rt.U64("s1"), rt.U64("s2")
	r1, r2 := rt.Bytes("r1"), rt.Bytes("r2")
	which := rt.Choose(4)
	var p [][]byte
	switch which {
	case 3:
		// the length rule of the summary: any other length is refused before a hash is looked at
		rt.Assume(0 < s1 && s1 < s2)
		p = verifFreeProof(rt.Param("edgeproof", 5))
		rt.Assume(len(p) != rt.VCWantLen(s1, s2))
		rt.Assert(proof.VerifyConsistency(rfc6962.DefaultHasher, s1, s2, p, r1, r2) != nil, "VC/length-rule-64bit")
	case 0:
		rt.Assume(s2 < s1)
		p = verifFreeProof(2)
		rt.Assert(proof.VerifyConsistency(rfc6962.DefaultHasher, s1, s2, p, r1, r2) != nil, "VC/shrink-rejected")
	case 1:
		rt.Assume(s1 == s2)
		p = verifFreeProof(2)
		err := proof.VerifyConsistency(rfc6962.DefaultHasher, s1, s2, p, r1, r2)
		rt.Assert((err == nil) == (len(p) == 0 && rt.Eq(r1, r2)), "VC/equal-sizes-rule-64bit")
	case 2:
		rt.Assume(s1 == 0 && s2 > 0)
		p = verifFreeProof(2)
		rt.Assert(proof.VerifyConsistency(rfc6962.DefaultHasher, s1, s2, p, r1, r2) != nil, "VC/from-empty-rejected")
	}
	rt.Cover(which == 2, "vc/edge")
	rt.Cover(which == 3 && len(p) == 3, "vc/edge-length-rule")
}

// verifReader is a tlog.HashReader over the leaf hashes of one tree: the stored
// hash at (level, n) is the Merkle tree hash of leaves [n<<level, (n+1)<<level).
func verifReader(leaves [][]byte) tlog.HashReader {
	return tlog.HashReaderFunc(func(indexes []int64) ([]tlog.Hash, error) {
		var out []tlog.Hash
		for _, ix := range indexes {
			level, n := tlog.SplitStoredHashIndex(ix)
			lo := int(n) << uint(level)
			hi := lo + (1 << uint(level))
			if hi > len(leaves) {
				return nil, fmt.Errorf("hash %d not stored", ix)
			}
			out = append(out, tlog.Hash(rt.Hash32(rt.MTH(leaves[lo:hi]))))
		}
		return out, nil
	})
}

// verifHonestProof is the proof the reference prover tlog.ProveTree produces.
func verifHonestProof(leaves [][]byte, m, n int) ([][]byte, error) {
	if m == 0 || m == n {
		return [][]byte{}, nil
	}
	tp, err := tlog.ProveTree(int64(n), int64(m), verifReader(leaves[:n]))
	if err != nil {
		return nil, err
	}
	out := [][]byte{}
	for _, h := range tp {
		out = append(out, rt.BytesOf32(h))
	}
	return out, nil
}

// VerifVCComplete is H-VC completeness: the proof of the reference prover is accepted
// by the real verifier and by tlog.CheckTree, for every pair of sizes within the bound.
func VerifVCComplete() {
	N := rt.Param("n", 8)
	m, n := verifSizes(N)
	y := rt.Leaves("y", n)
	p, err := verifHonestProof(y, m, n)
	rt.Assert(err == nil, "VC/prover-succeeds")
	if err != nil {
		return
	}
	rt.Assert(proof.VerifyConsistency(rfc6962.DefaultHasher, uint64(m), uint64(n), p, rt.MTH(y[:m]), rt.MTH(y)) == nil, "VC/complete")
	rt.Cover(m < n && len(p) > 1, "vc/nontrivial-proof")
}
