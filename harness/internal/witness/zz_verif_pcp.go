//go:build verifsym

package witness

import (
	"encoding/base64"
	"strings"

	"github.com/transparency-dev/formats/log"
	rt "github.com/transparency-dev/witness/internal/verifrt"
)

// VerifParseCheckpointContract is H-PCP: the REAL formats/log.ParseCheckpoint and
// Checkpoint.Unmarshal (String domain) over the note.Open contract succeed exactly when the
// contract used everywhere else says "valid": the note opens with a good signature by the log
// key, the signed text has the checkpoint shape, and its first line is the expected origin;
// and the parsed origin / size / hash are the first three lines of the signed text.
func VerifParseCheckpointContract() {
	raw, origin, k := rt.Bytes("raw"), rt.Str("origin"), rt.U64("logkey")
	v := &rt.Verifier{K: k, N: rt.Str("keyname")}
	cp, _, n, err := log.ParseCheckpoint(raw, origin, v) // pcp_real=1: the pinned dependency's code
	text := string(rt.NoteText(raw))
	sigOK := rt.WellFormed(raw) && !rt.BadSig(raw, k) && rt.HasSig(raw, k)

	l0, r0, f0 := strings.Cut(text, "\n")
	l1, r1, f1 := "", "", false
	l2, f2 := "", false
	if f0 {
		l1, r1, f1 = strings.Cut(r0, "\n")
	}
	if f1 {
		l2, _, f2 = strings.Cut(r1, "\n")
	}
	shape := f0 && f1 && f2 && l0 != "" && rt.InRe(l1, "digits+") && rt.FitsU64(l1)
	var hash []byte
	if shape {
		h, herr := base64.StdEncoding.DecodeString(l2)
		shape = herr == nil
		hash = h
	}
	rt.Cover(err == nil, "pcp/accepts")
	rt.Cover(err != nil && sigOK && shape, "pcp/refuses-wrong-origin")
	rt.Cover(err != nil && !sigOK, "pcp/refuses-bad-signature")
	if err == nil {
		rt.Assert(sigOK, "PCP/success-implies-good-log-signature")
		rt.Assert(shape, "PCP/success-implies-checkpoint-shape")
		rt.Assert(l0 == origin, "PCP/success-implies-first-line-is-origin")
		if shape {
			rt.Assert(cp.Origin == origin && cp.Size == rt.ToInt(l1) && rt.Eq(cp.Hash, hash), "PCP/fields-are-the-first-three-lines")
		}
		rt.Assert(n != nil && n.Text == text && len(n.Sigs) == 1, "PCP/note-text-and-one-verified-signature")
	} else {
		rt.Assert(!(sigOK && shape && l0 == origin), "PCP/valid-checkpoint-is-accepted")
		rt.Assert(cp == nil, "PCP/no-checkpoint-on-error")
		// the opened note is handed back with every refusal that comes after note.Open
		rt.Assert((n != nil) == sigOK, "PCP/note-returned-iff-the-note-opened")
		rt.Cover(n != nil, "pcp/refuses-but-returns-the-note")
	}
}
