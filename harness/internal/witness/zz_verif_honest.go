//go:build verifsym

package witness

import (
	"context"

	rt "github.com/transparency-dev/witness/internal/verifrt"
)

// VerifHonestStep is the C08 liveness harness: from any state in which the stored
// checkpoint (if any) is a checkpoint of the honest log, an honest step is accepted.
// The consistency proof is the one the reference prover tlog.ProveTree builds and
// the real proof.VerifyConsistency is executed (vc_inline=1).
func VerifHonestStep() {
	rt.InstallMetrics()
	c := verifConfig(1, rt.Param("signers", 2))
	store := verifStore()
	w, err := New(Opts{Persistence: store, Signers: c.signers, KnownLogs: c.logs})
	if err != nil {
		rt.Unsupported("New failed")
	}
	N := rt.Param("n", 8)
	n := rt.Choose(N + 1)     // submitted size 0..N
	m := rt.Choose(n+1+1) - 1 // stored size 0..n, or -1 = nothing stored yet
	y := rt.Leaves("y", n)
	origin, key := c.origins[0], c.keys[0]

	var prev []byte
	if m >= 0 {
		// representation invariant: what is stored verifies under the log's key; it may carry
		// extension lines and any number (<= 100) of signature lines
		prev = rt.Bytes("prevRaw")
		rt.Assume(rt.Valid(prev, origin, key, nil))
		rt.Assume(rt.CpSize(prev) == uint64(m))
		rt.Assume(rt.Eq(rt.CpHash(prev), rt.MTH(y[:m])))
		wr, err := store.WriteOps(c.ids[0])
		if err != nil || wr.Set(prev) != nil {
			rt.Unsupported("preload failed")
		}
		_ = wr.Close()
	}
	next := rt.Bytes("nextRaw")
	rt.Assume(rt.Valid(next, origin, key, nil))
	rt.Assume(rt.CpSize(next) == uint64(n))
	rt.Assume(rt.Eq(rt.CpHash(next), rt.MTH(y)))
	rt.Assume(rt.SigLines(next) == 1) // just the log's own signature line
	old := 0
	if m > 0 {
		old = m
	}
	proof, perr := verifHonestProof(y, old, n)
	if perr != nil {
		rt.Unsupported("reference prover failed")
	}
	rt.Name("prev.size", uint64(old))
	rt.Name("next.size", uint64(n))
	rt.Name("stored", m >= 0)

	out, uerr := w.Update(context.Background(), c.ids[0], uint64(old), next, proof)
	signerFailed := rt.Count("SignFail") > 0
	rt.Cover(uerr == nil && m >= 1 && n > m, "honest/growth-accepted")
	rt.Cover(uerr == nil && m < 0, "honest/first-use-accepted")
	rt.Cover(uerr == nil && m == n && m > 0, "honest/refresh-accepted")
	if !signerFailed && !rt.Prop("C09") {
		rt.Assert(uerr == nil && out != nil, "C08/honest-step-accepted")
	}
	if rt.Prop("C09") && !signerFailed && !(m == 0 && n > 0) {
		// the accept rule of the protocol with a proof the independent prover built (H-VC shows the
		// real verifier and tlog.CheckTree agree on it); growth from a stored empty tree is C08's
		rt.Assert(uerr == nil, "C09/8-accepted-reference-proof")
	}
}
