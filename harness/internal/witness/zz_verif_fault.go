//go:build verifsym

package witness

import (
	"context"
	"errors"

	"github.com/transparency-dev/witness/internal/persistence"
	"github.com/transparency-dev/witness/internal/persistence/inmemory"
	psql "github.com/transparency-dev/witness/internal/persistence/sql"
	rt "github.com/transparency-dev/witness/internal/verifrt"
	"google.golang.org/grpc/codes"
	"google.golang.org/grpc/status"
)

// ---------- interface-level fault injection ----------

var errInjected = errors.New("harness: injected storage failure")

// faultyStore wraps a real LogStatePersistence; while armed, each call may fail.
type faultyStore struct {
	inner   persistence.LogStatePersistence
	armed   bool
	opened  int
	closed  int
	readErr bool // a read of the previous checkpoint failed with a non-NotFound error
}

func (f *faultyStore) fail(op string) bool {
	if f.armed && rt.Bool("fault") {
		rt.Log(rt.Ev{K: "fault", B: [][]byte{[]byte(op)}})
		return true
	}
	return false
}

func (f *faultyStore) Init() error             { return f.inner.Init() }
func (f *faultyStore) Logs() ([]string, error) { return f.inner.Logs() }
func (f *faultyStore) ReadOps(id string) (persistence.LogStateReadOps, error) {
	return f.inner.ReadOps(id)
}
func (f *faultyStore) WriteOps(id string) (persistence.LogStateWriteOps, error) {
	if f.fail("WriteOps") {
		return nil, errInjected
	}
	w, err := f.inner.WriteOps(id)
	if err != nil {
		return nil, err
	}
	f.opened++
	return &faultyWriter{f: f, inner: w}, nil
}

type faultyWriter struct {
	f     *faultyStore
	inner persistence.LogStateWriteOps
}

func (w *faultyWriter) GetLatest() ([]byte, error) {
	if w.f.fail("GetLatest") {
		w.f.readErr = true
		// any error that is not NotFound: choose among a few representative shapes
		switch rt.Choose(3) {
		case 0:
			return nil, errInjected
		case 1:
			return nil, status.Error(codes.Unavailable, "injected")
		default:
			return nil, status.Error(codes.Internal, "injected")
		}
	}
	return w.inner.GetLatest()
}

func (w *faultyWriter) Set(c []byte) error {
	if w.f.fail("Set") {
		return errInjected
	}
	return w.inner.Set(c)
}

func (w *faultyWriter) Close() error {
	w.f.closed++
	err := w.inner.Close()
	if w.f.fail("Close") {
		return errInjected
	}
	return err
}

// VerifFaults is the C07 harness: one update under an arbitrary pattern of
// storage failures, followed by fault-free reads and a fault-free second update.
func VerifFaults() {
	rt.InstallMetrics()
	c := verifConfig(rt.Param("logs", 1), rt.Param("signers", 1))
	driverLevel := rt.Param("store", 0) == 1
	var store persistence.LogStatePersistence
	var fs *faultyStore
	db := rt.NewDB(1)
	if driverLevel {
		store = psql.NewPersistence(db)
	} else {
		fs = &faultyStore{inner: inmemory.NewPersistence()}
		store = fs
	}
	w, err := New(Opts{Persistence: store, Signers: c.signers, KnownLogs: c.logs})
	if err != nil {
		rt.Unsupported("New failed")
	}
	stored, prevs := verifPreload(store, c)
	logID, oldSize, nextRaw := c.ids[0], rt.U64("oldSize"), rt.Bytes("nextRaw")
	proof := verifProof(rt.Param("maxproof", 1))
	hadPrev, prevRaw := stored[0], prevs[0]

	// ---- step 1: under faults ----
	rt.ResetEvents()
	if driverLevel {
		rt.DBFaults = true
	} else {
		fs.armed = true
	}
	out, uerr := w.Update(context.Background(), logID, oldSize, nextRaw, proof)
	rt.DBFaults = false
	if fs != nil {
		fs.armed = false
	}
	evs := rt.Events
	accepted := uerr == nil
	nFault, queryFault, nSign, nSet := 0, false, 0, 0
	for _, e := range evs {
		switch e.K {
		case "fault":
			nFault++
		case "dbfault":
			nFault++
			if string(e.B[0]) == "query" || string(e.B[0]) == "rows.next" {
				queryFault = true // the read of the previous checkpoint failed
			}
		case "Sign":
			nSign++
		case "db.tx.exec":
			nSet++
		}
	}
	rt.Cover(accepted && nFault > 0, "flt/accepted-despite-a-fault")
	rt.Cover(!accepted && nFault > 0, "flt/refused-because-of-a-fault")
	rt.Cover(accepted && nFault == 0, "flt/accepted-no-fault")

	// no transaction / handle may be left open by any outcome
	if driverLevel {
		rt.Assert(rt.DB(db).OpenTx == 0 && rt.DB(db).InUse == 0, "C07/no-open-transaction")
	} else {
		rt.Assert(fs.opened == fs.closed, "C07/write-handle-closed")
	}

	// ---- fault-free read (on a one-connection pool it must not block: a block is reported as deadlock) ----
	got, gerr := w.GetCheckpoint(logID)
	if accepted {
		rt.Assert(gerr == nil && rt.Eq(got, out), "C07/accepted-implies-read-returns-it")
		if rt.Prop("C01") {
			// a cosignature that was handed out is the state later requests are checked against
			rt.Assert(gerr == nil && rt.Eq(got, out), "C01/handed-out-cosignature-is-the-witness-state")
		}
	} else {
		// nothing was committed
		if hadPrev {
			rt.Assert(gerr == nil && rt.Eq(got, prevRaw), "C07/refused-keeps-previous")
		} else {
			rt.Assert(gerr != nil && status.Code(gerr) == codes.NotFound, "C07/refused-keeps-empty")
		}
	}

	// ---- whatever accompanies a refusal is nothing or the stored checkpoint, never a fresh cosignature ----
	if !accepted && out != nil {
		rt.Assert(hadPrev && rt.Eq(out, prevRaw), "C03/refusal-bytes-are-nil-or-previous")
		for _, e := range evs {
			if e.K == "Sign" {
				rt.Assert(!rt.Eq(out, e.B[1]), "C03/no-cosignature-released-on-storage-failure")
			}
		}
	}
	rt.Cover(!accepted && nSign == 1, "flt/refused-after-signing")

	// ---- a failed read of the previous checkpoint is never "no previous checkpoint" ----
	readFailed := queryFault
	if fs != nil {
		readFailed = fs.readErr
	}
	if readFailed {
		rt.Assert(!accepted && nSign == 0 && out == nil, "C07/read-error-is-not-first-use")
		rt.Cover(true, "flt/read-error")
	}
	if accepted && hadPrev {
		// not trust-on-first-use: the stored checkpoint was really consulted
		verifC01Core(c, 0, prevRaw, oldSize, nextRaw, proof, evs)
	}

	// ---- step 2: fault-free, from the last committed state ----
	var cur []byte
	has := gerr == nil
	if has {
		cur = got
	}
	old2, next2 := rt.U64("oldSize2"), rt.Bytes("nextRaw2")
	proof2 := verifProof(rt.Param("maxproof", 1))
	rt.ResetEvents()
	out2, uerr2 := w.Update(context.Background(), logID, old2, next2, proof2)
	evs2 := rt.Events
	if uerr2 == nil && has {
		verifC01Core(c, 0, cur, old2, next2, proof2, evs2)
	}
	if rt.Prop("C01") && uerr2 == nil && accepted {
		// consistent with the checkpoint cosigned in step 1, whatever became of it in the store
		verifC01Core(c, 0, out, old2, next2, proof2, evs2)
	}
	if rt.Count("SignFail") == 0 {
		verifC09(c, 0, has, cur, old2, next2, proof2, out2, uerr2, evs2)
	}
	rt.Cover(uerr2 == nil && has, "flt/second-update-accepted")
	if driverLevel {
		rt.Assert(rt.DB(db).OpenTx == 0 && rt.DB(db).InUse == 0, "C07/no-open-transaction-after-second")
	}
}

// VerifCrash is the C06 harness: an update on the SQL store is killed at an arbitrary
// driver-operation boundary; a fresh witness is then built over what was committed.
func VerifCrash() {
	rt.InstallMetrics()
	c := verifConfig(rt.Param("logs", 2), rt.Param("signers", 1))
	db := rt.NewDB(1)
	store := psql.NewPersistence(db)
	w, err := New(Opts{Persistence: store, Signers: c.signers, KnownLogs: c.logs})
	if err != nil {
		rt.Unsupported("New failed")
	}
	stored, prevs := verifPreload(store, c)
	if rt.Param("prestep", 0) == 1 {
		// an arbitrary earlier request on the same process (accepted or refused): whatever it leaves
		// behind in the process or on the pooled connection is part of the history
		id0, old0, next0 := rt.Str("logID"), rt.U64("oldSize"), rt.Bytes("nextRaw")
		out0, err0 := w.Update(context.Background(), id0, old0, next0, verifProof(rt.Param("maxproof", 1)))
		if rt.Param("prestep_refused_only", 0) == 1 && err0 == nil {
			rt.Cut("quick tier: only refused earlier requests (accepted ones are what the preload stands for)")
		}
		if err0 == nil {
			for i, id := range c.ids {
				if id0 == id {
					stored[i], prevs[i] = true, out0 // acknowledged: this is the state a crash must keep
				}
			}
		}
		rt.Cover(err0 != nil, "crash/after-a-refused-request")
	}
	logID, oldSize, nextRaw := rt.Str("logID"), rt.U64("oldSize"), rt.Bytes("nextRaw")
	proof := verifProof(rt.Param("maxproof", 1))

	// the update under test runs until the chosen boundary (0 = runs to completion)
	rt.ResetEvents()
	rt.Boundary = 0
	rt.CrashAt = rt.Choose(rt.Param("boundaries", 12) + 1)
	// dbfaults=1: driver operations of the update may also fail before the kill (a failed COMMIT
	// followed by a crash is a history like any other)
	rt.DBFaults = rt.Param("dbfaults", 0) == 1
	var out []byte
	acked := false
	crashed := rt.RunCrashable(func() {
		o, e := w.Update(context.Background(), logID, oldSize, nextRaw, proof)
		if e == nil {
			out, acked = o, true // the acknowledgement the process managed to emit
		}
	})
	rt.CrashAt = 0
	rt.DBFaults = false
	evs := rt.Events
	reached := rt.Boundary
	if !crashed && rt.CrashAt != 0 {
		_ = reached
	}
	var written []byte
	nSign := 0
	for _, e := range evs {
		if e.K == "Sign" {
			written = e.B[1]
			nSign++
		}
	}
	li := -1
	for i, id := range c.ids {
		if logID == id {
			li = i
		}
	}

	// ---- restart: a fresh process over the committed table ----
	rt.Restart(db)
	store2 := psql.NewPersistence(db)
	w2, err := New(Opts{Persistence: store2, Signers: c.signers, KnownLogs: c.logs})
	if err != nil {
		rt.Unsupported("New after restart failed")
	}
	rt.Cover(crashed, "crash/killed")
	rt.Cover(crashed && nSign == 1, "crash/killed-after-signing")
	rt.Cover(!crashed && acked, "crash/completed")
	var cur []byte
	has := false
	for i, id := range c.ids {
		got, gerr := w2.GetCheckpoint(id)
		old := stored[i]
		isOld := (gerr != nil && status.Code(gerr) == codes.NotFound && !old) || (gerr == nil && old && rt.Eq(got, prevs[i]))
		isNew := i == li && nSign == 1 && gerr == nil && rt.Eq(got, written)
		rt.Assert(isOld || isNew, "C06/old-or-new")
		if i == li {
			if acked {
				rt.Assert(gerr == nil && rt.Eq(got, out), "C06/acknowledged-is-durable")
			}
			rt.Cover(crashed && isNew && !isOld, "crash/killed-after-commit")
			rt.Cover(crashed && isOld && nSign == 1, "crash/killed-before-commit")
			cur, has = got, gerr == nil
		}
	}
	if li < 0 {
		return
	}
	// ---- the restarted witness still enforces consistency with what is committed ----
	old2, next2 := rt.U64("oldSize2"), rt.Bytes("nextRaw2")
	proof2 := verifProof(rt.Param("maxproof", 1))
	rt.ResetEvents()
	_, uerr2 := w2.Update(context.Background(), logID, old2, next2, proof2)
	if uerr2 == nil && has {
		verifC01Core(c, li, cur, old2, next2, proof2, rt.Events)
	}
	rt.Assert(rt.DB(db).OpenTx == 0 && rt.DB(db).InUse == 0, "C06/no-open-transaction-after-restart-update")
}
