//go:build verifsym

package witness

import (
	"context"

	"github.com/transparency-dev/merkle/rfc6962"
	"github.com/transparency-dev/witness/internal/persistence"
	"github.com/transparency-dev/witness/internal/persistence/inmemory"
	psql "github.com/transparency-dev/witness/internal/persistence/sql"
	rt "github.com/transparency-dev/witness/internal/verifrt"
	"golang.org/x/mod/sumdb/note"
	"google.golang.org/grpc/codes"
	"google.golang.org/grpc/status"
)

// verifCfg is a symbolic witness configuration of n logs and k witness keys.
type verifCfg struct {
	ids, origins []string
	keys         []uint64
	wkeys        []uint64
	logs         map[string]LogInfo
	signers      []note.Signer
}

func verifConfig(n, k int) *verifCfg {
	c := &verifCfg{logs: map[string]LogInfo{}}
	for i := 0; i < n; i++ {
		id, origin, key := rt.Str("id"), rt.Str("origin"), rt.U64("logkey")
		for _, o := range c.ids {
			rt.Assume(id != o) // map keys are distinct by construction of a Go map
		}
		c.ids = append(c.ids, id)
		c.origins = append(c.origins, origin)
		c.keys = append(c.keys, key)
		// the key's name belongs to the key, not to the origin: logs that share a key share its name
		name := rt.UFStr("keyName", key)
		rt.RegisterKey(key, name)
		c.logs[id] = LogInfo{SigV: &rt.Verifier{K: key, N: name}, Origin: origin, Hasher: rfc6962.DefaultHasher}
	}
	for j := 0; j < k; j++ {
		wk := rt.U64("wkey")
		// A-keys: witness keys are pairwise distinct and differ from every log key.
		for _, o := range c.wkeys {
			rt.Assume(wk != o)
		}
		for _, o := range c.keys {
			rt.Assume(wk != o)
		}
		c.wkeys = append(c.wkeys, wk)
		rt.RegisterKey(wk, "witness")
		c.signers = append(c.signers, &rt.Signer{K: wk, N: "witness"})
	}
	return c
}

// verifStore builds the persistence layer under test: the real in-memory store, or the
// real SQL store over the database/sql contract model with the production pool size of one.
func verifStore() persistence.LogStatePersistence {
	if rt.Param("store", 0) == 1 {
		return psql.NewPersistence(rt.NewDB(1))
	}
	return inmemory.NewPersistence()
}

// verifPreload puts arbitrary bytes (or nothing) into each configured slot through the real write path.
func verifPreload(p persistence.LogStatePersistence, c *verifCfg) (stored []bool, prev [][]byte) {
	for i := range c.ids {
		st := rt.Bool("stored")
		var b []byte
		if st {
			b = rt.Bytes("prevRaw")
			w, err := p.WriteOps(c.ids[i])
			if err != nil {
				rt.Unsupported("preload: WriteOps failed")
			}
			if err := w.Set(b); err != nil {
				rt.Unsupported("preload: Set failed")
			}
			_ = w.Close()
		}
		stored = append(stored, st)
		prev = append(prev, b)
	}
	return
}

type verifSnap struct {
	has   []bool
	raw   [][]byte
	other []bool // a non-NotFound read error
	logs  []string
}

func verifSnapshot(w *Witness, c *verifCfg) verifSnap {
	var s verifSnap
	for _, id := range c.ids {
		b, err := w.GetCheckpoint(id)
		s.has = append(s.has, err == nil)
		s.other = append(s.other, err != nil && status.Code(err) != codes.NotFound)
		s.raw = append(s.raw, b)
	}
	s.logs, _ = w.GetLogs()
	return s
}

func verifProof(max int) [][]byte {
	n := rt.Choose(max + 1)
	p := [][]byte{}
	if n == 0 && rt.Choose(2) == 1 {
		p = nil
	}
	for i := 0; i < n; i++ {
		p = append(p, rt.Bytes("proof"))
	}
	return p
}

func verifProofTerm(p [][]byte) []byte {
	args := []any{}
	for _, h := range p {
		args = append(args, h)
	}
	return rt.Ctor("proof", args...)
}

const (
	ctrAttempt      = "witness_update_request"
	ctrSuccess      = "witness_update_success"
	ctrInvalidProof = "witness_update_invalid_consistency"
	ctrInconsistent = "witness_update_inconsistent_checkpoints"
)

func verifIncs(evs []rt.Ev, name string, label string) (n int, labelsOK bool) {
	labelsOK = true
	for _, e := range evs {
		if e.K == "Inc" && string(e.B[0]) == name {
			n++
			if len(e.B) != 2 || string(e.B[1]) != label {
				labelsOK = false
			}
		}
	}
	return
}

// VerifUpdateStep is H-UPD: one real Update from an arbitrary store, with the
// monitors of C01, C02, C03, C04, C09, C12 (frame) and C20 attached.
func VerifUpdateStep() {
	rt.InstallMetrics()
	c := verifConfig(rt.Param("logs", 2), rt.Param("signers", 2))
	store := verifStore()
	w, err := New(Opts{Persistence: store, Signers: c.signers, KnownLogs: c.logs})
	if err != nil {
		rt.Unsupported("New failed")
	}
	stored, prevs := verifPreload(store, c)

	logID, oldSize, nextRaw := rt.Str("logID"), rt.U64("oldSize"), rt.Bytes("nextRaw")
	proof := verifProof(rt.Param("maxproof", 2))

	pre := verifSnapshot(w, c)
	rt.ResetEvents()
	t0 := rt.Clock()
	out, uerr := w.Update(context.Background(), logID, oldSize, nextRaw, proof)
	t1 := rt.Clock()
	evs := rt.Events
	post := verifSnapshot(w, c)

	// which configured log was named (the map lookup in Update already decided this)
	li := -1
	for i, id := range c.ids {
		if logID == id {
			li = i
		}
	}
	known := li >= 0
	accepted := uerr == nil
	nSign, _ := 0, 0
	var signEv rt.Ev
	for _, e := range evs {
		if e.K == "Sign" {
			nSign++
			signEv = e
		}
	}
	var prevRaw []byte
	hadPrev := false
	if known {
		prevRaw, hadPrev = prevs[li], stored[li]
	}

	// ---- replayable cover witnesses: named facts from which the native replay
	// (native/internal/witness TestReplayCovers) rebuilds real keys, notes, trees and proofs ----
	if rt.Param("replay", 1) == 1 {
		kind := verifKind(uerr)
		var outKind uint64 // 0 nil, 1 the stored checkpoint (on a refusal), 2 the cosigned result of an accept, 3 anything else
		if out != nil {
			switch {
			case accepted:
				outKind = 2
			case hadPrev && rt.Eq(out, prevRaw):
				outKind = 1
			default:
				outKind = 3
			}
		}
		rt.Name("r.known", known)
		rt.Name("r.stored", hadPrev)
		rt.Name("r.oldSize", oldSize)
		rt.Name("r.proofLen", uint64(len(proof)))
		rt.Name("r.kind", kind)
		rt.Name("r.outKind", outKind)
		small := oldSize <= 12
		prefer := oldSize <= 12
		if known {
			rt.Name("r.nextSigLines", rt.SigLines(nextRaw))
			prefer = prefer && rt.CpSize(nextRaw) <= 9 && rt.SigLines(nextRaw) <= 100
			if hadPrev {
				rt.Name("r.prevSigLines", rt.SigLines(prevRaw))
				prefer = prefer && rt.CpSize(prevRaw) <= 9 && rt.SigLines(prevRaw) <= 100
			}
		}
		rt.Prefer(prefer && rt.Count("SignFail") == 0)
		if known {
			rt.Name("r.nextValid", rt.Valid(nextRaw, c.origins[li], c.keys[li], nil))
			rt.Name("r.nextSize", rt.CpSize(nextRaw))
			small = small && rt.CpSize(nextRaw) <= 9 && rt.SigLines(nextRaw) <= 3
			if hadPrev {
				rt.Name("r.prevValid", rt.Valid(prevRaw, c.origins[li], c.keys[li], nil))
				rt.Name("r.prevSize", rt.CpSize(prevRaw))
				rt.Name("r.sameRoot", rt.Eq(rt.CpHash(nextRaw), rt.CpHash(prevRaw)))
				rt.Name("r.vcOK", rt.VCVerdict(rt.CpSize(prevRaw), rt.CpSize(nextRaw), len(proof), verifProofTerm(proof), rt.CpHash(prevRaw), rt.CpHash(nextRaw)))
				small = small && rt.CpSize(prevRaw) <= 9 && rt.SigLines(prevRaw) <= 5
			}
		}
		noSignFail := rt.Count("SignFail") == 0
		rt.Cover(small && !known, "replay/unknown-log")
		rt.Cover(small && uerr == ErrNoValidSignature, "replay/bad-signature")
		rt.Cover(small && noSignFail && accepted && !hadPrev, "replay/first-use")
		rt.Cover(small && noSignFail && accepted && hadPrev && rt.CpSize(nextRaw) > rt.CpSize(prevRaw), "replay/growth")
		rt.Cover(small && noSignFail && accepted && hadPrev && rt.CpSize(nextRaw) == rt.CpSize(prevRaw), "replay/refresh")
		rt.Cover(small && uerr == ErrOldSizeInvalid, "replay/old-size-invalid")
		rt.Cover(small && uerr == ErrCheckpointStale, "replay/stale")
		rt.Cover(small && uerr == ErrRootMismatch, "replay/root-mismatch")
		rt.Cover(small && uerr == ErrInvalidProof && rt.CpSize(nextRaw) > rt.CpSize(prevRaw) && rt.CpSize(prevRaw) > 0, "replay/invalid-proof")
		rt.Cover(small && uerr == ErrInvalidProof && rt.CpSize(prevRaw) == 0, "replay/from-size-zero")
		rt.Cover(small && known && hadPrev && kind == kOther && noSignFail && !rt.Valid(prevRaw, c.origins[li], c.keys[li], nil), "replay/stored-unreadable")
	}

	// ---- reachability witnesses (vacuity guard) ----
	rt.Cover(!known, "upd/unknown-log")
	rt.Cover(uerr == ErrNoValidSignature, "upd/bad-signature")
	rt.Cover(accepted && !hadPrev, "upd/accept-first-use")
	rt.Cover(accepted && hadPrev && rt.CpSize(nextRaw) > rt.CpSize(prevRaw), "upd/accept-growth")
	rt.Cover(accepted && hadPrev && rt.CpSize(nextRaw) == rt.CpSize(prevRaw), "upd/accept-refresh")
	rt.Cover(uerr == ErrOldSizeInvalid, "upd/old-size-too-large")
	rt.Cover(uerr == ErrCheckpointStale, "upd/stale")
	rt.Cover(uerr == ErrRootMismatch, "upd/root-mismatch")
	rt.Cover(uerr == ErrInvalidProof, "upd/invalid-proof")
	rt.Cover(!accepted && hadPrev && out == nil && uerr != ErrNoValidSignature, "upd/other-error")

	if rt.Prop("C01") {
		if accepted && hadPrev {
			verifC01Core(c, li, prevRaw, oldSize, nextRaw, proof, evs)
		}
		if accepted {
			rt.Assert(nSign == 1 && rt.Eq(signEv.B[0], nextRaw) && rt.Eq(signEv.B[1], out), "C01/cosigned-is-next")
			rt.Assert(post.has[li] && rt.Eq(post.raw[li], out), "C01/stored-is-returned")
		}
	}

	if rt.Prop("C02") {
		if !known {
			rt.Assert(uerr == ErrUnknownLog && out == nil && len(evs) == 0, "C02/unknown-log-refused-outright")
		}
		if nSign > 0 || accepted {
			rt.Assert(known, "C02/sign-only-known")
			if known {
				rt.Assert(rt.Valid(nextRaw, c.origins[li], c.keys[li], nil), "C02/valid-under-configured-key-and-origin")
				okEv := false
				for _, e := range evs {
					if e.K == "Parse" && !okEv {
						okEv = rt.Eq(e.B[0], nextRaw) && string(e.B[1]) == c.origins[li] && e.U[0] == c.keys[li]
						break
					}
				}
				rt.Assert(okEv, "C02/first-parse-is-next-under-config")
			}
		}
		for i := range c.ids {
			if post.has[i] && !(pre.has[i] && rt.Eq(pre.raw[i], post.raw[i])) {
				// something new is stored under ids[i]: it must be a cosignature of a text valid for that id
				rt.Assert(i == li && rt.Valid(nextRaw, c.origins[i], c.keys[i], nil), "C02/stored-only-if-valid-for-that-id")
			}
		}
	}

	if rt.Prop("C03") && !accepted {
		for i := range c.ids {
			same := pre.has[i] == post.has[i]
			if same && pre.has[i] {
				same = rt.Eq(pre.raw[i], post.raw[i])
			}
			rt.Assert(same, "C03/state-unchanged")
		}
		sameLogs := len(pre.logs) == len(post.logs)
		if sameLogs {
			for i := range pre.logs {
				sameLogs = sameLogs && pre.logs[i] == post.logs[i]
			}
		}
		rt.Assert(sameLogs, "C03/log-list-unchanged")
		if out != nil {
			rt.Assert(hadPrev && rt.Eq(out, prevRaw), "C03/bytes-are-nil-or-previous")
			for _, e := range evs {
				if e.K == "Sign" {
					rt.Assert(!rt.Eq(out, e.B[1]), "C03/no-cosignature-released")
				}
			}
		}
	}

	if rt.Prop("C04") && accepted {
		rt.Assert(nSign == 1, "C04/exactly-one-sign")
		if nSign == 1 {
			rt.Assert(rt.Eq(signEv.B[0], nextRaw), "C04/signs-submitted-note")
			okKeys := len(signEv.U) == 1+len(c.wkeys)
			if okKeys {
				for j, k := range c.wkeys {
					okKeys = okKeys && signEv.U[1+j] == k
				}
			}
			rt.Assert(okKeys, "C04/one-signature-per-configured-key-in-order")
			rt.Assert(rt.Eq(out, signEv.B[1]), "C04/returns-the-cosigned-bytes")
			rt.Assert(t0 <= signEv.U[0] && signEv.U[0] <= t1, "C04/timestamp-inside-call-window")
			rt.Assert(post.has[li] && rt.Eq(post.raw[li], out), "C04/read-after-accept-returns-same-bytes")
			// by the Sign contract the result carries the log's text and signature
			rt.Assert(rt.Eq(rt.NoteText(out), rt.NoteText(nextRaw)) && rt.HasSig(out, c.keys[li]), "C04/text-and-log-signature-preserved")
			for _, k := range c.wkeys {
				rt.Assert(rt.HasSig(out, k) && !rt.BadSig(out, k), "C04/witness-signature-present")
			}
		}
	}

	if rt.Prop("C12") && known {
		for i := range c.ids {
			if i != li {
				same := pre.has[i] == post.has[i]
				if same && pre.has[i] {
					same = rt.Eq(pre.raw[i], post.raw[i])
				}
				rt.Assert(same, "C12/other-logs-untouched")
			}
		}
	}

	if rt.Prop("C08") && accepted {
		// nothing the witness stores may make its own next verification fail
		rt.Name("cosigned.sigLines", rt.SigLines(out))
		rt.Assert(rt.Valid(post.raw[li], c.origins[li], c.keys[li], nil), "C08/stored-checkpoint-reopens")
	}

	if rt.Prop("C20") {
		nA, lA := verifIncs(evs, ctrAttempt, logID)
		nS, lS := verifIncs(evs, ctrSuccess, logID)
		nP, lP := verifIncs(evs, ctrInvalidProof, logID)
		nI, lI := verifIncs(evs, ctrInconsistent, logID)
		total := 0
		for _, e := range evs {
			if e.K == "Inc" {
				total++
			}
		}
		want := func(b bool) int {
			if b {
				return 1
			}
			return 0
		}
		rt.Assert(nA == want(known), "C20/attempt-iff-known-log")
		rt.Assert(nS == want(accepted), "C20/success-iff-accepted")
		rt.Assert(nP == want(uerr == ErrInvalidProof), "C20/invalid-consistency-iff-bad-proof")
		rt.Assert(nI == want(uerr == ErrRootMismatch), "C20/inconsistent-iff-root-mismatch")
		rt.Assert(lA && lS && lP && lI, "C20/label-is-log-id")
		rt.Assert(total == nA+nS+nP+nI, "C20/no-other-counter-moves")
	}

	if rt.Prop("C09") {
		verifC09(c, li, hadPrev, prevRaw, oldSize, nextRaw, proof, out, uerr, evs)
	}
}

// verifC09 compares the outcome with the executable reference of the tlog-witness rules.
func verifC09(c *verifCfg, li int, hadPrev bool, prevRaw []byte, oldSize uint64, nextRaw []byte, proof [][]byte, out []byte, uerr error, evs []rt.Ev) {
	if li < 0 {
		rt.Assert(uerr == ErrUnknownLog && out == nil, "C09/1-unknown-log")
		return
	}
	if !rt.Valid(nextRaw, c.origins[li], c.keys[li], nil) {
		rt.Assert(uerr == ErrNoValidSignature && out == nil, "C09/2-no-valid-signature")
		return
	}
	// An accept presupposes that the witness can produce a cosigned note at all: its signers
	// work, and the result stays within the note format's limit of 100 signature lines.
	signFailed := rt.Count("SignFail") > 0 || rt.SigLines(nextRaw)+uint64(len(c.wkeys)) > 100
	if !hadPrev {
		if oldSize == 0 && len(proof) == 0 && !signFailed {
			rt.Assert(uerr == nil, "C09/3-first-use-accepted")
		}
		return
	}
	if !rt.Valid(prevRaw, c.origins[li], c.keys[li], nil) {
		return // not a protocol rule: the stored bytes are not a checkpoint of this log
	}
	ns, ps := rt.CpSize(nextRaw), rt.CpSize(prevRaw)
	if oldSize > ns {
		rt.Assert(uerr == ErrOldSizeInvalid && rt.Eq(out, prevRaw) && out != nil, "C09/4-old-size-above-checkpoint")
		return
	}
	if oldSize != ps {
		rt.Assert(uerr == ErrCheckpointStale && rt.Eq(out, prevRaw) && out != nil, "C09/5-stale-old-size")
		return
	}
	if ns == ps && !rt.Eq(rt.CpHash(nextRaw), rt.CpHash(prevRaw)) {
		rt.Assert(uerr == ErrRootMismatch && rt.Eq(out, prevRaw) && out != nil, "C09/6-same-size-different-root")
		return
	}
	if ps == 0 && ns > 0 {
		return // carve-out: claimed in C08
	}
	// proof verdict of the independent verifier
	var verdict bool
	if ns == ps {
		verdict = len(proof) == 0
	} else {
		verdict = rt.VCVerdict(ps, ns, len(proof), verifProofTerm(proof), rt.CpHash(prevRaw), rt.CpHash(nextRaw))
	}
	rt.Name("prev.size", ps)
	rt.Name("next.size", ns)
	rt.Name("proof.len", uint64(len(proof)))
	if !verdict {
		rt.Assert(uerr == ErrInvalidProof && rt.Eq(out, prevRaw) && out != nil, "C09/7-invalid-proof")
		return
	}
	if !signFailed {
		rt.Assert(uerr == nil, "C09/8-accepted")
	}
}

// verifC01Core states the append-only step obligations of an accepted update over a stored checkpoint.
func verifC01Core(c *verifCfg, li int, prevRaw []byte, oldSize uint64, nextRaw []byte, proof [][]byte, evs []rt.Ev) {
	rt.Assert(rt.Valid(prevRaw, c.origins[li], c.keys[li], nil), "C01/prev-verified")
	rt.Assert(oldSize == rt.CpSize(prevRaw), "C01/oldsize-eq-stored")
	rt.Assert(rt.CpSize(nextRaw) >= rt.CpSize(prevRaw), "C01/no-shrink")
	if rt.CpSize(nextRaw) == rt.CpSize(prevRaw) {
		rt.Assert(rt.Eq(rt.CpHash(nextRaw), rt.CpHash(prevRaw)), "C01/same-size-same-root")
		return
	}
	nvc := 0
	var vc rt.Ev
	for _, e := range evs {
		if e.K == "VC" {
			nvc++
			vc = e
		}
	}
	rt.Assert(nvc == 1, "C01/vc-called-once")
	if nvc == 1 {
		okArgs := vc.U[0] == rt.CpSize(prevRaw) && vc.U[1] == rt.CpSize(nextRaw) && vc.U[2] == 1
		okArgs = okArgs && rt.Eq(vc.B[0], verifProofTerm(proof)) && rt.Eq(vc.B[1], rt.CpHash(prevRaw)) && rt.Eq(vc.B[2], rt.CpHash(nextRaw))
		rt.Assert(okArgs, "C01/vc-args-and-verdict")
	}
}

// VerifWorld is a symbolic witness deployment for harnesses in other packages.
type VerifWorld struct {
	W       *Witness
	IDs     []string
	Origins []string
	Keys    []uint64
	WKeys   []uint64
	Stored  []bool
	Prev    [][]byte
	Store   persistence.LogStatePersistence
	Logs    map[string]LogInfo
	Signers []note.Signer
}

// VerifNewWorld builds configuration, store (Param "store"), witness and an arbitrary pre-state.
func VerifNewWorld(nlogs, nsigners int) *VerifWorld {
	rt.InstallMetrics()
	c := verifConfig(nlogs, nsigners)
	store := verifStore()
	w, err := New(Opts{Persistence: store, Signers: c.signers, KnownLogs: c.logs})
	if err != nil {
		rt.Unsupported("New failed")
	}
	stored, prevs := verifPreload(store, c)
	return &VerifWorld{W: w, IDs: c.ids, Origins: c.origins, Keys: c.keys, WKeys: c.wkeys, Stored: stored, Prev: prevs, Store: store, Logs: c.logs, Signers: c.signers}
}

// VerifProof returns an arbitrary proof of bounded length.
func VerifProof(max int) [][]byte { return verifProof(max) }

// VerifHonestProof exposes the reference prover to other packages.
func VerifHonestProof(leaves [][]byte, m, n int) ([][]byte, error) {
	return verifHonestProof(leaves, m, n)
}

// VerifUpdateTwoSteps runs two consecutive real Updates on ONE witness instance (arbitrary
// requests, possibly naming different logs) and attaches the step monitors to the second:
// whatever in-process state the first call leaves behind (caches, memoised verification,
// counters) must not change what the second one accepts.
func VerifUpdateTwoSteps() {
	rt.InstallMetrics()
	c := verifConfig(rt.Param("logs", 2), rt.Param("signers", 1))
	store := verifStore()
	w, err := New(Opts{Persistence: store, Signers: c.signers, KnownLogs: c.logs})
	if err != nil {
		rt.Unsupported("New failed")
	}
	verifPreload(store, c)
	// step 1: anything
	id1, old1, next1 := rt.Str("logID"), rt.U64("oldSize"), rt.Bytes("nextRaw")
	_, err1 := w.Update(context.Background(), id1, old1, next1, verifProof(rt.Param("maxproof", 1)))
	// the state the second step starts from
	pre := verifSnapshot(w, c)
	id2, old2, next2 := rt.Str("logID"), rt.U64("oldSize"), rt.Bytes("nextRaw")
	proof2 := verifProof(rt.Param("maxproof", 1))
	rt.ResetEvents()
	out, uerr := w.Update(context.Background(), id2, old2, next2, proof2)
	evs := rt.Events
	post := verifSnapshot(w, c)
	li := -1
	for i, id := range c.ids {
		if id2 == id {
			li = i
		}
	}
	accepted := uerr == nil
	rt.Cover(err1 == nil && accepted && id1 != id2, "two/both-accepted-different-logs")
	rt.Cover(err1 == nil && accepted && id1 == id2, "two/both-accepted-same-log")
	rt.Cover(err1 == nil && accepted && rt.Eq(next1, next2) && id1 != id2, "two/same-bytes-replayed-to-another-log")
	rt.Cover(err1 != nil && accepted && id1 == id2, "two/accepted-after-a-refusal-on-the-same-log")
	if rt.Prop("C08") || rt.Prop("C09") {
		// the protocol rules hold for the second request relative to what is stored now, whatever
		// the first request was and however it ended (nothing but the store carries over)
		var prev2 []byte
		had2 := false
		if li >= 0 {
			prev2, had2 = pre.raw[li], pre.has[li]
		}
		verifC09(c, li, had2, prev2, old2, next2, proof2, out, uerr, evs)
	}
	if !accepted {
		if rt.Prop("C03") {
			for i := range c.ids {
				same := pre.has[i] == post.has[i]
				if same && pre.has[i] {
					same = rt.Eq(pre.raw[i], post.raw[i])
				}
				rt.Assert(same, "C03/state-unchanged-second-step")
			}
		}
		return
	}
	if rt.Prop("C02") || rt.Prop("C12") {
		rt.Assert(li >= 0, "C02/sign-only-known-second-step")
		if li >= 0 {
			rt.Assert(rt.Valid(next2, c.origins[li], c.keys[li], nil), "C02/valid-under-configured-key-and-origin-second-step")
		}
	}
	if li < 0 {
		return
	}
	if rt.Prop("C01") && pre.has[li] {
		verifC01Core(c, li, pre.raw[li], old2, next2, proof2, evs)
	}
	if rt.Prop("C12") {
		for i := range c.ids {
			if i != li {
				same := pre.has[i] == post.has[i]
				if same && pre.has[i] {
					same = rt.Eq(pre.raw[i], post.raw[i])
				}
				rt.Assert(same, "C12/other-logs-untouched-second-step")
			}
		}
	}
	if rt.Prop("C04") {
		nSign := 0
		var se rt.Ev
		for _, e := range evs {
			if e.K == "Sign" {
				nSign++
				se = e
			}
		}
		rt.Assert(nSign == 1 && rt.Eq(se.B[0], next2) && rt.Eq(se.B[1], out), "C04/second-step-signs-what-it-returns")
		rt.Assert(post.has[li] && rt.Eq(post.raw[li], out), "C04/second-step-read-after-accept")
	}
}

// VerifUpdateInline is the end-to-end form of C01 for small trees: the stored and the submitted
// checkpoint commit to Merkle tree hashes of two arbitrary leaf lists, the REAL
// proof.VerifyConsistency runs inside the real Update (vc_inline=1) on an arbitrary proof, and an
// accepted growth step must mean that the old leaves are a prefix of the new ones.
func VerifUpdateInline() {
	rt.InstallMetrics()
	c := verifConfig(1, rt.Param("signers", 1))
	store := verifStore()
	w, err := New(Opts{Persistence: store, Signers: c.signers, KnownLogs: c.logs})
	if err != nil {
		rt.Unsupported("New failed")
	}
	N := rt.Param("n", 6)
	m, n := verifSizes(N) // 1 <= m <= n <= N
	x, y := rt.Leaves("x", m), rt.Leaves("y", n)
	origin, key := c.origins[0], c.keys[0]
	prev, next := rt.Bytes("prevRaw"), rt.Bytes("nextRaw")
	rt.Assume(rt.Valid(prev, origin, key, nil) && rt.CpSize(prev) == uint64(m) && rt.Eq(rt.CpHash(prev), rt.MTH(x)))
	rt.Assume(rt.Valid(next, origin, key, nil) && rt.CpSize(next) == uint64(n) && rt.Eq(rt.CpHash(next), rt.MTH(y)))
	wo, err := store.WriteOps(c.ids[0])
	if err != nil || wo.Set(prev) != nil {
		rt.Unsupported("preload failed")
	}
	_ = wo.Close()
	proof := verifFreeProof(verifMaxProofLen(N))
	oldSize := rt.U64("oldSize")
	out, uerr := w.Update(context.Background(), c.ids[0], oldSize, next, proof)
	rt.Cover(uerr == nil && n > m, "inline/growth-accepted")
	rt.Cover(uerr == ErrInvalidProof, "inline/proof-refused")
	if rt.Prop("C09") && oldSize == uint64(m) && n > m && uerr != nil && rt.Count("SignFail") == 0 && rt.SigLines(next)+uint64(len(c.wkeys)) <= 100 {
		// whatever the real verifier objects to (length, recomputed root, final comparison), the
		// answer to a growth request with the right old size is the bare sentinel and the stored bytes
		rt.Assert(uerr == ErrInvalidProof, "C09/7-invalid-proof-is-the-sentinel-itself")
		rt.Assert(out != nil && rt.Eq(out, prev), "C09/7-invalid-proof-returns-the-stored-checkpoint")
	}
	if uerr == nil {
		for i := 0; i < m; i++ {
			rt.Assert(rt.Eq(x[i], y[i]), "C01/accepted-growth-extends-the-stored-tree")
		}
	}
}
