//go:build verifsym

package http

import (
	"context"
	"errors"
	"fmt"
	nethttp "net/http"
	"os"

	wit_api "github.com/transparency-dev/witness/api"
	rt "github.com/transparency-dev/witness/internal/verifrt"
)

// VerifClientGet: the bundled client turns 200 into the body, 404 into the "does not exist"
// error feeders rely on, and anything else into another error.
func VerifClientGet() {
	base := rt.Str("base")
	w := NewWitness(rt.URLOf(base), &nethttp.Client{})
	logID := rt.Str("logID")
	rt.ResetEvents()
	b, err := w.GetLatestCheckpoint(context.Background(), logID)
	if rt.Count("urlfail") > 0 {
		rt.Assert(err != nil, "C16/client-url-error")
		return
	}
	do, ok := rt.Find("http.Do", 0)
	rt.Assert(ok, "C16/client-sends-request")
	if !ok {
		return
	}
	rt.Assert(string(do.B[0]) == "GET" && string(do.B[1]) == rt.UFStr("urlJoin", base, fmt.Sprintf(wit_api.HTTPGetCheckpoint, logID)), "C16/client-requests-that-logs-checkpoint")
	resp, _ := rt.Find("http.resp", 0)
	if resp.U[0] == 0 {
		rt.Assert(err != nil && !errors.Is(err, os.ErrNotExist) && b == nil, "C16/client-transport-error")
		return
	}
	if resp.U[2] == 1 && resp.U[1] == 200 {
		// the body could not be read: an error, and never "does not exist"
		rt.Assert(err != nil && !errors.Is(err, os.ErrNotExist), "C16/client-read-failure-is-error")
		rt.Cover(true, "client/read-failure")
		return
	}
	switch resp.U[1] {
	case 200:
		rt.Assert(err == nil && rt.Eq(b, []byte(rt.Last("http.respBody"))), "C16/client-200-returns-body")
		rt.Cover(true, "client/200")
	case 404:
		rt.Assert(errors.Is(err, os.ErrNotExist) && b == nil, "C16/client-404-is-not-exist")
		rt.Cover(true, "client/404")
	default:
		rt.Assert(err != nil && !errors.Is(err, os.ErrNotExist) && b == nil, "C16/client-other-status-is-error")
		rt.Cover(true, "client/other")
	}
}
