package main

import (
	"encoding/json"
	"flag"
	"fmt"
	"os"
	"strconv"
	"strings"
	"time"

	"wsym/sym"
)

func main() {
	if len(os.Args) < 2 {
		fmt.Fprintln(os.Stderr, "usage: wsym run|check ...")
		os.Exit(2)
	}
	switch os.Args[1] {
	case "run":
		os.Exit(cmdRun(os.Args[2:]))
	case "check":
		os.Exit(cmdCheck(os.Args[2:]))
	default:
		fmt.Fprintln(os.Stderr, "unknown command", os.Args[1])
		os.Exit(2)
	}
}

func env(k, d string) string {
	if v := os.Getenv(k); v != "" {
		return v
	}
	return d
}

func loadWorld(patterns []string) (*sym.World, error) {
	t0 := time.Now()
	w, err := sym.Load(sym.LoadOptions{
		RepoDir:    env("WSYM_REPO", "/repo"),
		EngineDir:  env("WSYM_ENGINE", "/verif/engine"),
		HarnessDir: env("WSYM_HARNESS", "/verif/harness"),
		Patterns:   patterns,
	})
	if err != nil {
		return nil, err
	}
	w.LoadSec = time.Since(t0).Seconds()
	return w, nil
}

func cmdRun(args []string) int {
	fs := flag.NewFlagSet("run", flag.ExitOnError)
	harness := fs.String("harness", "", "pkgpath.Func")
	props := fs.String("props", "", "comma-separated property ids whose monitors are armed")
	params := fs.String("params", "", "k=v,k=v")
	domain := fs.String("domain", "algebra", "algebra|string|array")
	solver := fs.String("solver", "z3", "z3|z3-new|cvc5")
	workers := fs.Int("workers", 16, "")
	unwind := fs.Int("unwind", 80, "")
	timeout := fs.Int("timeout", 60000, "per-query ms")
	jsonOut := fs.String("json", "", "write report json")
	cutUnwind := fs.Bool("cutunwind", false, "loop bound exceeded = outside the bound")
	fs.Parse(args)
	i := strings.LastIndex(*harness, ".")
	w, err := loadWorld([]string{(*harness)[:i]})
	if err != nil {
		fmt.Fprintln(os.Stderr, "load:", err)
		return 2
	}
	cfg := &sym.RunConfig{Harness: *harness, Props: map[string]bool{}, Params: map[string]int{}, Workers: *workers, Unwind: *unwind, Solver: sym.SolverKind(*solver), TimeoutMs: *timeout, CutOnUnwind: *cutUnwind}
	switch *domain {
	case "string":
		cfg.Domain = sym.DomString
	case "array":
		cfg.Domain = sym.DomArray
	}
	for _, p := range strings.Split(*props, ",") {
		if p != "" {
			cfg.Props[p] = true
		}
	}
	for _, kv := range strings.Split(*params, ",") {
		if kv == "" {
			continue
		}
		p := strings.SplitN(kv, "=", 2)
		v, _ := strconv.Atoi(p[1])
		cfg.Params[p[0]] = v
	}
	rep, err := sym.Run(w, cfg)
	if err != nil {
		fmt.Fprintln(os.Stderr, "run:", err)
		return 2
	}
	b, _ := json.MarshalIndent(rep, "", " ")
	if *jsonOut != "" {
		os.WriteFile(*jsonOut, b, 0o644)
	}
	fmt.Println(string(b))
	fmt.Printf("load %.1fs, functions %d, stubs %v\n", w.LoadSec, len(w.EncodedFunctions()), w.StubsUsed())
	if len(rep.Violations) > 0 {
		return 1
	}
	if len(rep.Unsupported) > 0 || len(rep.Unknowns) > 0 || len(rep.UnwindFail) > 0 {
		return 2
	}
	return 0
}
