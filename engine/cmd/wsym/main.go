package main

import (
	"encoding/json"
	"flag"
	"fmt"
	"os"
	"strconv"
	"strings"
	"time"

	"wsym/sym"
)

func main() {
	if len(os.Args) < 2 {
		fmt.Fprintln(os.Stderr, "usage: wsym run|check ...")
		os.Exit(2)
	}
	switch os.Args[1] {
	case "run":
		os.Exit(cmdRun(os.Args[2:]))
	case "check":
		if len(os.Args) > 2 && os.Args[2] == "xsolver" {
			os.Exit(cmdXSolver())
		}
		os.Exit(cmdCheck(os.Args[2:]))
	default:
		fmt.Fprintln(os.Stderr, "unknown command", os.Args[1])
		os.Exit(2)
	}
}

func env(k, d string) string {
	if v := os.Getenv(k); v != "" {
		return v
	}
	return d
}

func loadWorld(patterns []string) (*sym.World, error) {
	t0 := time.Now()
	w, err := sym.Load(sym.LoadOptions{
		RepoDir:    env("WSYM_REPO", "/repo"),
		EngineDir:  env("WSYM_ENGINE", "/verif/engine"),
		HarnessDir: env("WSYM_HARNESS", "/verif/harness"),
		Patterns:   patterns,
	})
	if err != nil {
		return nil, err
	}
	w.LoadSec = time.Since(t0).Seconds()
	return w, nil
}

func cmdRun(args []string) int {
	fs := flag.NewFlagSet("run", flag.ExitOnError)
	harness := fs.String("harness", "", "pkgpath.Func")
	props := fs.String("props", "", "comma-separated property ids whose monitors are armed")
	params := fs.String("params", "", "k=v,k=v")
	domain := fs.String("domain", "algebra", "algebra|string|array")
	solver := fs.String("solver", "z3", "z3|z3-new|cvc5")
	workers := fs.Int("workers", 16, "")
	unwind := fs.Int("unwind", 80, "")
	timeout := fs.Int("timeout", 60000, "per-query ms")
	jsonOut := fs.String("json", "", "write report json")
	cutUnwind := fs.Bool("cutunwind", false, "loop bound exceeded = outside the bound")
	fs.Parse(args)
	i := strings.LastIndex(*harness, ".")
	w, err := loadWorld([]string{(*harness)[:i]})
	if err != nil {
		fmt.Fprintln(os.Stderr, "load:", err)
		return 2
	}
	cfg := &sym.RunConfig{Harness: *harness, Props: map[string]bool{}, Params: map[string]int{}, Workers: *workers, Unwind: *unwind, Solver: sym.SolverKind(*solver), TimeoutMs: *timeout, CutOnUnwind: *cutUnwind}
	switch *domain {
	case "string":
		cfg.Domain = sym.DomString
	case "array":
		cfg.Domain = sym.DomArray
	}
	for _, p := range strings.Split(*props, ",") {
		if p != "" {
			cfg.Props[p] = true
		}
	}
	for _, kv := range strings.Split(*params, ",") {
		if kv == "" {
			continue
		}
		p := strings.SplitN(kv, "=", 2)
		v, _ := strconv.Atoi(p[1])
		cfg.Params[p[0]] = v
	}
	rep, err := sym.Run(w, cfg)
	if err != nil {
		fmt.Fprintln(os.Stderr, "run:", err)
		return 2
	}
	b, _ := json.MarshalIndent(rep, "", " ")
	if *jsonOut != "" {
		os.WriteFile(*jsonOut, b, 0o644)
	}
	fmt.Println(string(b))
	fmt.Printf("load %.1fs, functions %d, stubs %v\n", w.LoadSec, len(w.EncodedFunctions()), w.StubsUsed())
	if len(rep.Violations) > 0 {
		return 1
	}
	if len(rep.Unsupported) > 0 || len(rep.Unknowns) > 0 || len(rep.UnwindFail) > 0 {
		return 2
	}
	return 0
}

// cmdXSolver runs a fixed set of harnesses on every available back end and compares the
// verdict summaries (paths, obligations, discharged, violations, cover points): a disagreement
// means a solver (or the encoding's use of it) is wrong.
func cmdXSolver() int {
	w, err := loadWorld([]string{pkgWitness, pkgLitmus})
	if err != nil {
		fmt.Fprintln(os.Stderr, "load:", err)
		return 2
	}
	type job struct {
		h      string
		props  []string
		params map[string]int
	}
	jobs := []job{
		{pkgWitness + ".VerifUpdateStep", []string{"C01", "C02", "C03", "C04", "C08", "C09", "C12", "C20"}, p("logs", 1, "signers", 2, "maxproof", 2, "replay", 0)},
		{pkgWitness + ".VerifUpdateStep", []string{"C01", "C03", "C09"}, p("logs", 2, "signers", 1, "maxproof", 1, "store", 1, "replay", 0)},
		{pkgWitness + ".VerifVCSound", nil, p("n", 8, "vc_inline", 1)},
		{pkgWitness + ".VerifVCAgree", nil, p("n", 8, "vc_inline", 1)},
		{pkgWitness + ".VerifVCComplete", nil, p("n", 8, "vc_inline", 1)},
		{pkgWitness + ".VerifFaults", []string{"C07", "C03"}, p("logs", 1, "signers", 1, "maxproof", 1, "store", 1)},
		{pkgLitmus + ".Maps", nil, nil},
		{pkgLitmus + ".BytesAlg", nil, nil},
		{pkgLitmus + ".Loop", nil, nil},
	}
	bad := 0
	for _, j := range jobs {
		var ref string
		for _, sk := range []sym.SolverKind{sym.Z3, sym.Z3New, sym.CVC5} {
			props := map[string]bool{}
			for _, pr := range j.props {
				props[pr] = true
			}
			rep, err := sym.Run(w, &sym.RunConfig{Harness: j.h, Props: props, Params: j.params, Solver: sk, TimeoutMs: 60000, Quiet: true})
			if err != nil {
				fmt.Println("run:", err)
				return 2
			}
			sum := fmt.Sprintf("paths=%d ok=%d infeasible=%d panics=%d obligations=%d discharged=%d violations=%d unknown=%d covers=%v", rep.Paths, rep.PathsOK, rep.Infeasible, rep.Panics, rep.Obligations, rep.Discharged, len(rep.Violations), len(rep.Unknowns), rep.CoverIDs)
			fmt.Printf("%-28s %-7s %s (%.1fs)\n", short(j.h), sk, sum, rep.WallSec)
			if ref == "" {
				ref = sum
			} else if sum != ref {
				fmt.Printf("DISAGREEMENT on %s between z3 and %s\n", j.h, sk)
				bad++
			}
		}
	}
	if bad > 0 {
		return 2
	}
	fmt.Println("xsolver: z3 4.8.12, z3 5.1.0 and cvc5 1.0 agree on every summary")
	return 0
}
