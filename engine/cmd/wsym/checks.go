package main

import (
	"encoding/json"
	"fmt"
	"os"
	"os/exec"
	"path/filepath"
	"sort"
	"strconv"
	"strings"
	"time"

	"wsym/sym"
)

const (
	pkgBastion     = "github.com/transparency-dev/witness/internal/feeder/bastion"
	pkgPixel       = "github.com/transparency-dev/witness/internal/feeder/pixelbt"
	pkgRekor       = "github.com/transparency-dev/witness/internal/feeder/rekor"
	pkgClient      = "github.com/transparency-dev/witness/internal/client"
	pkgOmni        = "github.com/transparency-dev/witness/omniwitness"
	pkgHTTP        = "github.com/transparency-dev/witness/internal/http"
	pkgClientHTTP  = "github.com/transparency-dev/witness/client/http"
	pkgRest        = "github.com/transparency-dev/witness/internal/distribute/rest"
	pkgFeeder      = "github.com/transparency-dev/witness/internal/feeder"
	pkgSumdb       = "github.com/transparency-dev/witness/internal/feeder/sumdb"
	pkgOmniCmd     = "github.com/transparency-dev/witness/cmd/omniwitness"
	pkgFeedbastion = "github.com/transparency-dev/witness/cmd/feedbastion"
	pkgWitness     = "github.com/transparency-dev/witness/internal/witness"
	pkgLitmus      = "github.com/transparency-dev/witness/internal/verifrt/litmus"
)

// runSpec is one harness run belonging to a check.
type runSpec struct {
	Harness     string
	Domain      sym.Domain
	Solver      sym.SolverKind
	Quick       map[string]int
	Thorough    map[string]int
	Covers      []string // cover points that must be reachable (vacuity guard)
	Unwind      int
	CutOnUnwind bool
	// OnlyThorough runs are skipped in the quick tier.
	OnlyThorough bool
	// ExpectPanicFree: a panic path is a violation of the property (always true; kept for clarity)
	TimeoutMs int
}

type checkSpec struct {
	ID          string
	Runs        []runSpec
	Assumptions []string
}

func p(kv ...interface{}) map[string]int {
	m := map[string]int{}
	for i := 0; i+1 < len(kv); i += 2 {
		m[kv[i].(string)] = kv[i+1].(int)
	}
	return m
}

var updCovers = []string{"upd/unknown-log", "upd/bad-signature", "upd/accept-first-use", "upd/accept-growth", "upd/accept-refresh", "upd/old-size-too-large", "upd/stale", "upd/root-mismatch", "upd/invalid-proof", "upd/other-error"}

var commonAssumptions = []string{
	"A-sig: signature cryptography and note byte parsing are the contract of formats/log.ParseCheckpoint / x/mod note.Sign (attributes of note bytes are uninterpreted functions)",
	"A-keys: witness key ids are pairwise distinct and differ from every log key id",
	"A-hash: SHA-256 is modelled as an injective, domain-separated constructor (ideal hash)",
	"amd64: int and uint are 64 bit",
	"engine: go/ssa semantics as implemented by wsym (litmus suite in harness/internal/verifrt/litmus)",
}

func updRun(quick, thorough map[string]int) runSpec {
	return runSpec{Harness: pkgWitness + ".VerifUpdateStep", Quick: quick, Thorough: thorough, Covers: updCovers}
}

// vcRuns are the H-VC harnesses: the real merkle verifier against the algebra, tlog.CheckTree and tlog.ProveTree.
func vcRuns() []runSpec {
	q, t := p("n", 8, "vc_inline", 1), p("n", 48, "vc_inline", 1)
	return []runSpec{
		{Harness: pkgWitness + ".VerifVCSound", Quick: q, Thorough: t, Covers: []string{"vc/accepts-growth", "vc/accepts-equal", "vc/rejects"}},
		{Harness: pkgWitness + ".VerifVCAgree", Quick: q, Thorough: t, Covers: []string{"vc/both-accept", "vc/both-reject"}},
		{Harness: pkgWitness + ".VerifVCEdge", Quick: p("vc_inline", 1), Thorough: p("vc_inline", 1), Covers: []string{"vc/edge", "vc/edge-length-rule"}},
		{Harness: pkgWitness + ".VerifVCComplete", Quick: q, Thorough: t, Covers: []string{"vc/nontrivial-proof"}},
	}
}

var checks = map[string]*checkSpec{}

func reg(c *checkSpec) { checks[c.ID] = c }

func init() {
	updQ := p("logs", 2, "signers", 2, "maxproof", 2)
	updT := p("logs", 3, "signers", 3, "maxproof", 3)
	updQs := p("logs", 2, "signers", 2, "maxproof", 2, "store", 1)
	updTs := p("logs", 3, "signers", 3, "maxproof", 3, "store", 1)
	for _, id := range []string{"C01", "C02", "C03", "C04", "C09", "C12", "C20"} {
		reg(&checkSpec{ID: id, Runs: []runSpec{updRun(updQ, updT), updRun(updQs, updTs)}, Assumptions: commonAssumptions})
	}
	// the real consistency verifier itself (H-VC): soundness for C01, agreement with tlog.CheckTree for C09
	vr := vcRuns()
	checks["C01"].Runs = append(checks["C01"].Runs, vr[0], vr[2])
	checks["C09"].Runs = append(checks["C09"].Runs, vr[1], vr[2])
	// arbitrary proofs through the REAL verifier inside the real Update: every way the verifier refuses
	checks["C09"].Runs = append(checks["C09"].Runs, runSpec{Harness: pkgWitness + ".VerifUpdateInline", Quick: p("n", 5, "signers", 1, "vc_inline", 1), Thorough: p("n", 8, "signers", 1, "vc_inline", 1), Covers: []string{"inline/growth-accepted", "inline/proof-refused"}})
	// proofs of every length the reference prover produces, through the real verifier, for concrete sizes
	checks["C09"].Runs = append(checks["C09"].Runs, runSpec{Harness: pkgWitness + ".VerifHonestStep", Quick: p("n", 8, "signers", 1, "vc_inline", 1), Thorough: p("n", 32, "signers", 1, "vc_inline", 1), Covers: []string{"honest/growth-accepted", "honest/first-use-accepted", "honest/refresh-accepted"}})
	checks["C01"].Runs = append(checks["C01"].Runs, runSpec{Harness: pkgWitness + ".VerifUpdateInline", Quick: p("n", 6, "signers", 1, "vc_inline", 1), Thorough: p("n", 12, "signers", 1, "vc_inline", 1), Covers: []string{"inline/growth-accepted", "inline/proof-refused"}})
	// histories of length two on one witness instance (in-process state between calls)
	twoCovers := []string{"two/both-accepted-different-logs", "two/both-accepted-same-log", "two/same-bytes-replayed-to-another-log"}
	for _, id := range []string{"C01", "C02", "C03", "C04", "C12"} {
		checks[id].Runs = append(checks[id].Runs, runSpec{Harness: pkgWitness + ".VerifUpdateTwoSteps", Quick: p("logs", 2, "signers", 1, "maxproof", 1, "replay", 0), Thorough: p("logs", 2, "signers", 2, "maxproof", 2, "replay", 0), Covers: twoCovers})
	}
	// C03's storage-failure refusal class: the fault harness with C03's monitors
	fltCovers := []string{"flt/refused-because-of-a-fault", "flt/refused-after-signing"}
	checks["C03"].Runs = append(checks["C03"].Runs,
		runSpec{Harness: pkgWitness + ".VerifFaults", Quick: p("logs", 1, "signers", 1, "maxproof", 1, "store", 0), Thorough: p("logs", 2, "signers", 2, "maxproof", 2, "store", 0), Covers: fltCovers},
		runSpec{Harness: pkgWitness + ".VerifFaults", Quick: p("logs", 1, "signers", 1, "maxproof", 1, "store", 1), Thorough: p("logs", 2, "signers", 2, "maxproof", 2, "store", 1), Covers: fltCovers})
	// three witness keys (key roll-over): slices of signers / verifiers with spare capacity
	checks["C02"].Runs = append(checks["C02"].Runs, runSpec{Harness: pkgWitness + ".VerifUpdateStep", Quick: p("logs", 2, "signers", 3, "maxproof", 0, "replay", 0), Thorough: p("logs", 2, "signers", 5, "maxproof", 0, "replay", 0), Covers: []string{"upd/accept-first-use", "upd/bad-signature"}})
	checks["C04"].Runs = append(checks["C04"].Runs, runSpec{Harness: pkgWitness + ".VerifUpdateStep", Quick: p("logs", 1, "signers", 3, "maxproof", 0, "replay", 0), Thorough: p("logs", 1, "signers", 5, "maxproof", 0, "replay", 0), Covers: []string{"upd/accept-first-use"}})
	// C01 under overlapping updates: two accepted updates are explained by some order (the C05 oracle)
	checks["C01"].Runs = append(checks["C01"].Runs, runSpec{Harness: pkgWitness + ".VerifConcurrent", Quick: p("threads", 2, "logs", 1, "signers", 1, "maxproof", 0, "store", 0), Thorough: p("threads", 2, "logs", 1, "signers", 1, "maxproof", 1, "store", 1), Covers: []string{"conc/some-accepted"}})
	// C01 across a storage fault: a cosignature handed out in a step with failing storage operations
	// binds the next step (H-FLT with C01's monitors)
	checks["C01"].Runs = append(checks["C01"].Runs,
		runSpec{Harness: pkgWitness + ".VerifFaults", Quick: p("logs", 1, "signers", 1, "maxproof", 1, "store", 1), Thorough: p("logs", 2, "signers", 2, "maxproof", 2, "store", 1), Covers: []string{"flt/accepted-no-fault", "flt/refused-because-of-a-fault", "flt/second-update-accepted"}},
		runSpec{Harness: pkgWitness + ".VerifFaults", Quick: p("logs", 1, "signers", 1, "maxproof", 1, "store", 0), Thorough: p("logs", 2, "signers", 2, "maxproof", 2, "store", 0), Covers: []string{"flt/accepted-no-fault", "flt/refused-because-of-a-fault", "flt/second-update-accepted"}})
	// C03's storage-conflict refusal (only reachable with overlapping updates): the loser of two
	// overlapping updates must leave the winner's stored bytes alone
	checks["C03"].Runs = append(checks["C03"].Runs,
		runSpec{Harness: pkgWitness + ".VerifConcurrent", Quick: p("threads", 2, "logs", 1, "signers", 1, "maxproof", 0, "store", 0), Thorough: p("threads", 2, "logs", 2, "signers", 1, "maxproof", 1, "store", 0), Covers: []string{"conc/storage-conflict", "conc/some-accepted"}})
	reg(&checkSpec{ID: "C07", Assumptions: append([]string{"A-db: database/sql + SQLite contract model (harness/internal/verifrt/sqlmodel.go): commit is atomic and durable, failure applies nothing"}, commonAssumptions...), Runs: []runSpec{
		{Harness: pkgWitness + ".VerifFaults", Quick: p("logs", 1, "signers", 1, "maxproof", 1, "store", 0), Thorough: p("logs", 2, "signers", 2, "maxproof", 2, "store", 0), Covers: []string{"flt/accepted-no-fault", "flt/refused-because-of-a-fault", "flt/read-error", "flt/second-update-accepted"}},
		{Harness: pkgWitness + ".VerifFaults", Quick: p("logs", 1, "signers", 1, "maxproof", 1, "store", 1), Thorough: p("logs", 2, "signers", 2, "maxproof", 2, "store", 1), Covers: []string{"flt/accepted-no-fault", "flt/refused-because-of-a-fault", "flt/read-error", "flt/second-update-accepted"}},
	}})
	reg(&checkSpec{ID: "C06", Assumptions: append([]string{"A-db: database/sql + SQLite contract model: commit is atomic and durable; an uncommitted transaction leaves no trace after a crash; real SIGKILL / file system / cgo driver are outside the claim"}, commonAssumptions...), Runs: []runSpec{
		{Harness: pkgWitness + ".VerifCrash", Quick: p("logs", 2, "signers", 1, "maxproof", 1, "boundaries", 12), Thorough: p("logs", 3, "signers", 2, "maxproof", 2, "boundaries", 14), Covers: []string{"crash/killed", "crash/killed-after-signing", "crash/completed", "crash/killed-after-commit", "crash/killed-before-commit"}},
		// an arbitrary earlier request on the same process, then the update; quick: the process is killed
		// only after the update returned (what was acknowledged must survive the restart), thorough:
		// at every boundary after a refused earlier request
		{Harness: pkgWitness + ".VerifCrash", Quick: p("logs", 1, "signers", 1, "maxproof", 0, "boundaries", 0, "prestep", 1), Thorough: p("logs", 1, "signers", 1, "maxproof", 0, "boundaries", 14, "prestep", 1, "prestep_refused_only", 1), Covers: []string{"crash/completed", "crash/after-a-refused-request"}},
		// driver faults before the kill (a failed COMMIT, then the crash)
		{Harness: pkgWitness + ".VerifCrash", Quick: p("logs", 1, "signers", 1, "maxproof", 0, "boundaries", 12, "dbfaults", 1), Thorough: p("logs", 2, "signers", 1, "maxproof", 1, "boundaries", 14, "dbfaults", 1), Covers: []string{"crash/killed", "crash/completed"}},
	}})
	concCovers := []string{"conc/some-accepted", "conc/all-accepted-same-log"}
	reg(&checkSpec{ID: "C05", Assumptions: append([]string{"yield points: every sync.(RW)Mutex operation and every database/sql operation; code between yield points is atomic (lock discipline)", "A-db with a single pooled connection (cmd/omniwitness sets MaxOpenConns(1))"}, commonAssumptions...), Runs: []runSpec{
		{Harness: pkgWitness + ".VerifConcurrent", Quick: p("threads", 2, "logs", 2, "signers", 1, "maxproof", 1, "store", 0), Thorough: p("threads", 2, "logs", 2, "signers", 2, "maxproof", 2, "store", 0), Covers: append([]string{"conc/storage-conflict"}, concCovers...)},
		{Harness: pkgWitness + ".VerifConcurrent", Quick: p("threads", 2, "logs", 2, "signers", 1, "maxproof", 1, "store", 1), Thorough: p("threads", 2, "logs", 2, "signers", 2, "maxproof", 2, "store", 1), Covers: concCovers},
		{Harness: pkgWitness + ".VerifConcurrent", Quick: p("threads", 2, "logs", 1, "signers", 1, "maxproof", 0, "store", 1, "dbfaults", 1), Thorough: p("threads", 2, "logs", 1, "signers", 1, "maxproof", 1, "store", 1, "dbfaults", 1), Covers: []string{"conc/some-accepted"}},
		{Harness: pkgWitness + ".VerifConcurrent", OnlyThorough: true, Thorough: p("threads", 3, "logs", 1, "signers", 1, "maxproof", 0, "store", 0), Covers: append([]string{"conc/storage-conflict"}, concCovers...)},
		{Harness: pkgWitness + ".VerifConcurrent", OnlyThorough: true, Thorough: p("threads", 3, "logs", 1, "signers", 1, "maxproof", 0, "store", 1), Covers: concCovers},
	}})
	reg(&checkSpec{ID: "C08", Assumptions: append([]string{"the stored checkpoint, if any, is a checkpoint of the same honest log (representation invariant; its preservation by every accepted update is the first obligation)", "witness signers do not fail"}, commonAssumptions...), Runs: []runSpec{
		updRun(updQ, updT),
		{Harness: pkgWitness + ".VerifHonestStep", Quick: p("n", 8, "signers", 2, "vc_inline", 1), Thorough: p("n", 32, "signers", 2, "vc_inline", 1), Covers: []string{"honest/growth-accepted", "honest/first-use-accepted", "honest/refresh-accepted"}},
		{Harness: pkgWitness + ".VerifVCComplete", Quick: p("n", 8, "vc_inline", 1), Thorough: p("n", 32, "vc_inline", 1), Covers: []string{"vc/nontrivial-proof"}},
	}})
	// C08 / C09 after an arbitrary first request on the same witness instance (in-process state)
	for _, id := range []string{"C08", "C09"} {
		checks[id].Runs = append(checks[id].Runs, runSpec{Harness: pkgWitness + ".VerifUpdateTwoSteps", Quick: p("logs", 1, "signers", 1, "maxproof", 1, "replay", 0), Thorough: p("logs", 2, "signers", 1, "maxproof", 2, "replay", 0), Covers: []string{"two/both-accepted-same-log", "two/accepted-after-a-refusal-on-the-same-log"}})
		// the same on the SQL store with its production pool of one connection: whatever the first request
		// leaves open (a transaction, a row set) blocks the second one forever, which is reported as a deadlock
		checks[id].Runs = append(checks[id].Runs, runSpec{Harness: pkgWitness + ".VerifUpdateTwoSteps", Quick: p("logs", 1, "signers", 1, "maxproof", 1, "replay", 0, "store", 1), Thorough: p("logs", 2, "signers", 1, "maxproof", 1, "replay", 0, "store", 1), Covers: []string{"two/both-accepted-same-log", "two/accepted-after-a-refusal-on-the-same-log"}})
	}
	strAssume := []string{"String domain: []byte/string are SMT-LIB strings (one code point per byte); base64 is an uninterpreted codec with dec(enc(x))=x, enc(x) free of CR/LF, enc(x)=\"\" iff x=\"\"", "bufio.Reader.ReadLine contract (4096-byte buffer; bodies bounded to 4000 bytes so the isPrefix case is outside the claim)", "strings.Split / proof line loops bounded by k"}
	reg(&checkSpec{ID: "C11", Assumptions: strAssume, Runs: []runSpec{
		{Harness: pkgBastion + ".VerifParseBodyHashLengths", Domain: sym.DomString, Solver: sym.CVC5, Quick: p("maxhash", 64), Thorough: p("maxhash", 64), Covers: []string{"parse/lengths-roundtrip"}},
		{Harness: pkgBastion + ".VerifParseBodyRoundTrip", Domain: sym.DomString, Solver: sym.CVC5, Quick: p("k", 8), Thorough: p("k", 32), Unwind: 200, Covers: []string{"parse/roundtrip-with-proof"}},
		// the far end of the property's 0..64 range: the line count is explored with one arbitrary hash repeated
		{Harness: pkgBastion + ".VerifParseBodyRoundTrip", Domain: sym.DomString, Solver: sym.CVC5, Quick: p("k", 64, "kmin", 9, "samehash", 1), Thorough: p("k", 64, "kmin", 33, "samehash", 1), Unwind: 200, Covers: []string{"parse/roundtrip-with-proof"}},
		{Harness: pkgBastion + ".VerifParseBodyRoundTrip", Domain: sym.DomString, Solver: sym.CVC5, OnlyThorough: true, Thorough: p("k", 64, "kmin", 63), Unwind: 200, TimeoutMs: 60000, Covers: []string{"parse/roundtrip-with-proof"}},
		{Harness: pkgWitness + ".VerifProofRoundTrip", Domain: sym.DomString, Solver: sym.CVC5, Quick: p("k", 64, "kmin", 9, "maxsplit", 66, "samehash", 1), Thorough: p("k", 64, "kmin", 33, "maxsplit", 66, "samehash", 1), Unwind: 200},
		{Harness: pkgFeedbastion + ".VerifWriterRoundTrip", Domain: sym.DomString, Solver: sym.CVC5, Quick: p("k", 64, "kmin", 9, "samehash", 1), Thorough: p("k", 64, "kmin", 33, "samehash", 1), Unwind: 200},
		{Harness: pkgBastion + ".VerifParseBodyRefusal", Domain: sym.DomString, Solver: sym.CVC5, Quick: p("k", 2), Thorough: p("k", 3), Unwind: 4, CutOnUnwind: true, TimeoutMs: 30000, Covers: []string{"parse/accepts-one-proof-line", "parse/refuses"}},
		{Harness: pkgWitness + ".VerifProofRoundTrip", Domain: sym.DomString, Solver: sym.CVC5, Quick: p("k", 8, "maxsplit", 10), Thorough: p("k", 32, "maxsplit", 34), Unwind: 200, Covers: []string{"proof/roundtrip-two"}},
		{Harness: pkgFeedbastion + ".VerifWriterRoundTrip", Domain: sym.DomString, Solver: sym.CVC5, Quick: p("k", 8), Thorough: p("k", 32), Unwind: 200, Covers: []string{"writer/roundtrip-two"}},
	}})
	reg(&checkSpec{ID: "C18", Assumptions: append([]string{"decimal formatting (%d, %03d) is an uninterpreted function of the 64-bit value shared by both implementations", "tile byte decoding inside tlog.TileHashReader is outside the claim"}, commonAssumptions...), Runs: []runSpec{
		{Harness: pkgSumdb + ".VerifTilePath", Domain: sym.DomString, Solver: sym.Z3, Quick: p(), Thorough: p(), Covers: []string{"tile/full-deep", "tile/partial-shallow", "tile/seven-levels"}},
		{Harness: pkgWitness + ".VerifVCComplete", Quick: p("n", 16, "vc_inline", 1), Thorough: p("n", 64, "vc_inline", 1), Covers: []string{"vc/nontrivial-proof"}},
		// one real feed cycle: a growth step is submitted with a proof built from tiles
		{Harness: pkgSumdb + ".VerifFeedHostile", Quick: p("attempts", 1), Thorough: p("attempts", 2), Unwind: 140, Covers: []string{"hostile/proof-built", "hostile/growth-submitted"}},
	}})
	reg(&checkSpec{ID: "C13", Assumptions: append([]string{"backoff.Retry contract (harness/internal/verifrt/backoff.go), attempts bounded; back-off timing not modelled"}, commonAssumptions...), Runs: []runSpec{
		{Harness: pkgFeeder + ".VerifFeedOnce", Quick: p("attempts", 2, "maxproof", 1), Thorough: p("attempts", 3, "maxproof", 1), Covers: []string{"feed/success-first-try", "feed/success-after-retry", "feed/witness-ahead", "feed/refresh", "feed/context-done", "feed/unverifiable-checkpoint"}},
	}})
	reg(&checkSpec{ID: "C15", Assumptions: append([]string{"net/http client contract: Do answers with an arbitrary status/body, a transport error, or a redirect that changed the method", "url.Parse(x).String() is modelled as x (no normalisation); url.PathEscape is an uninterpreted function"}, commonAssumptions...), Runs: []runSpec{
		{Harness: pkgRest + ".VerifDistribute", Domain: sym.DomString, Solver: sym.CVC5, Quick: p("logs", 2, "io_faults", 1), Thorough: p("logs", 3, "io_faults", 1), Covers: []string{"dist/pushed", "dist/all-succeeded", "dist/partial-failure"}},
	}})
	reg(&checkSpec{ID: "C16", Assumptions: append([]string{"gorilla/mux route matching is outside the claim (mux.Vars returns the symbolic id)", "log-list order: the stores are iterated in insertion order by the engine; JSON encoding of a string list is an injective constructor"}, commonAssumptions...), Runs: []runSpec{
		{Harness: pkgHTTP + ".VerifReadAPI", Quick: p("logs", 2, "signers", 1, "maxproof", 1, "steps", 1, "store", 0), Thorough: p("logs", 3, "signers", 2, "maxproof", 2, "steps", 1, "store", 0), Covers: []string{"http/found", "http/unknown-id", "http/known-id-nothing-stored", "http/first-accept-adds-entry", "http/refused-first-submission"}},
		{Harness: pkgHTTP + ".VerifReadAPI", Quick: p("logs", 2, "signers", 1, "maxproof", 0, "steps", 0, "store", 1, "getfaults", 1), Thorough: p("logs", 3, "signers", 1, "maxproof", 0, "steps", 0, "store", 1, "getfaults", 1), Covers: []string{"http/read-fault"}},
		{Harness: pkgHTTP + ".VerifReadAPI", Quick: p("logs", 1, "signers", 1, "maxproof", 1, "steps", 2, "store", 0), Thorough: p("logs", 2, "signers", 1, "maxproof", 1, "steps", 2, "store", 0), Covers: []string{"http/found", "http/first-accept-adds-entry", "http/refused-first-submission", "http/second-update-accepted"}},
		{Harness: pkgHTTP + ".VerifReadAPI", Quick: p("logs", 2, "signers", 1, "maxproof", 1, "steps", 1, "store", 1), Thorough: p("logs", 3, "signers", 2, "maxproof", 2, "steps", 1, "store", 1), Covers: []string{"http/found", "http/unknown-id", "http/known-id-nothing-stored", "http/first-accept-adds-entry", "http/refused-first-submission"}},
		{Harness: pkgHTTP + ".VerifReadAPI", Quick: p("logs", 1, "signers", 1, "maxproof", 1, "steps", 2, "store", 1), Thorough: p("logs", 2, "signers", 1, "maxproof", 1, "steps", 2, "store", 1), Covers: []string{"http/found", "http/first-accept-adds-entry", "http/refused-first-submission", "http/second-update-accepted"}},
		{Harness: pkgClientHTTP + ".VerifClientGet", Domain: sym.DomString, Solver: sym.CVC5, Quick: p("io_faults", 1), Thorough: p("io_faults", 1), Covers: []string{"client/200", "client/404", "client/other"}},
	}})
	bastCovers := []string{"bast/429", "bast/400-malformed", "bast/404", "bast/403", "bast/400-oldsize", "bast/409-stale", "bast/409-root", "bast/422", "bast/200"}
	reg(&checkSpec{ID: "C10", Assumptions: append([]string{"parseBody is replaced by its contract (decided in C11); rate.Limiter.Allow is an arbitrary boolean; the TLS 1.3 + HTTP/2 reverse connection (connectAndServe) is outside the claim", "formats/note.NewVerifier and formats/log.ID are uninterpreted functions of the key text / origin"}, commonAssumptions...), Runs: []runSpec{
		{Harness: pkgOmni + ".VerifBastion", Quick: p("logs", 2, "maxproof", 1, "store", 0), Thorough: p("logs", 3, "maxproof", 2, "store", 0), Covers: bastCovers},
		{Harness: pkgOmni + ".VerifBastion", Quick: p("logs", 1, "maxproof", 1, "store", 1), Thorough: p("logs", 2, "maxproof", 2, "store", 1), Covers: bastCovers},
	}})
	reg(&checkSpec{ID: "C19", Assumptions: append([]string{"bounded absence of run-time panics and of loops beyond the unwinding bound in the repository's own code and in x/mod tlog.ProveTree; panics inside contract-modelled library calls, socket timeouts and HTTP/2 framing are outside the claim; JSON decoding is the contract 'an error, or an arbitrary value of the target type (lists of <= 2/3 elements)'", "hostile checkpoint sizes: {0, 2^62-1, 2^62, 2^62+1, 2^63-1, 2^63, 2^64-1, any value <= 9}; root hash of arbitrary length"}, commonAssumptions...), Runs: []runSpec{
		{Harness: pkgSumdb + ".VerifFeedHostile", Quick: p("attempts", 1), Thorough: p("attempts", 2), Unwind: 140, Covers: []string{"hostile/cycle-succeeds", "hostile/cycle-fails", "hostile/proof-built"}},
		{Harness: pkgPixel + ".VerifFeedHostile", Quick: p("attempts", 1), Thorough: p("attempts", 2), Unwind: 140, Covers: []string{"hostile/cycle-succeeds", "hostile/cycle-fails", "hostile/proof-built"}},
		{Harness: pkgRekor + ".VerifFeedHostile", Quick: p("attempts", 1, "json_maxlist", 2), Thorough: p("attempts", 2, "json_maxlist", 3), Covers: []string{"rekor/cycle-succeeds", "rekor/cycle-fails", "rekor/proof-fetched"}},
		{Harness: pkgPixel + ".VerifReadTiles", Domain: sym.DomString, Solver: sym.Z3, Covers: []string{"pixel/readtiles-ok"}},
		// the sumdb tile reader on an arbitrary tile and an arbitrary (short, long, empty) HTTP body
		{Harness: pkgSumdb + ".VerifTilePath", Domain: sym.DomString, Solver: sym.Z3, Quick: p(), Thorough: p(), Covers: []string{"tile/full-deep", "tile/partial-shallow"}},
		{Harness: pkgClient + ".VerifDataToLeaves", Domain: sym.DomArray, Quick: p("maxlen", 6), Thorough: p("maxlen", 10), Covers: []string{"leaves/two"}},
		{Harness: pkgBastion + ".VerifServeArbitraryBody", Domain: sym.DomString, Solver: sym.CVC5, Quick: p("k", 2, "io_faults", 1), Thorough: p("k", 3, "io_faults", 1), Unwind: 4, CutOnUnwind: true, Covers: []string{"serve/200", "serve/400", "serve/500"}},
		{Harness: pkgWitness + ".VerifProofUnmarshalArbitrary", Domain: sym.DomString, Solver: sym.CVC5, Quick: p("maxsplit", 3), Thorough: p("maxsplit", 5), Covers: []string{"proof/arbitrary-two-lines", "proof/arbitrary-refused"}},
		{Harness: pkgOmni + ".VerifBastion", Quick: p("logs", 1, "maxproof", 1, "store", 0), Thorough: p("logs", 2, "maxproof", 2, "store", 0)},
		{Harness: pkgFeeder + ".VerifFeedOnce", Quick: p("attempts", 2, "maxproof", 1), Thorough: p("attempts", 2, "maxproof", 2)},
		{Harness: pkgRest + ".VerifDistribute", Domain: sym.DomString, Solver: sym.CVC5, Quick: p("logs", 2), Thorough: p("logs", 2)},
	}})
	pcpRun := runSpec{Harness: pkgWitness + ".VerifParseCheckpointContract", Domain: sym.DomString, Solver: sym.CVC5, Quick: p("pcp_real", 1, "maxsplit", 5), Thorough: p("pcp_real", 1, "maxsplit", 5), Covers: []string{"pcp/accepts", "pcp/refuses-wrong-origin", "pcp/refuses-bad-signature", "pcp/refuses-but-returns-the-note"}}
	reg(&checkSpec{ID: "pcp", Runs: []runSpec{pcpRun}, Assumptions: commonAssumptions})
	pcpT := pcpRun
	pcpT.OnlyThorough = true // ~4 min of string queries: thorough tier (and ./check pcp)
	checks["C02"].Runs = append(checks["C02"].Runs, pcpT)
	// H-MAIN: the production wiring of the SQL store (single-connection pool) and of the witness keys
	mainRun := runSpec{Harness: pkgOmniCmd + ".VerifMainWiring", Covers: []string{"main/sql-persistence", "main/in-memory-persistence"}}
	reg(&checkSpec{ID: "mainwiring", Runs: []runSpec{mainRun}, Assumptions: commonAssumptions})
	checks["C05"].Runs = append(checks["C05"].Runs, mainRun)
	// identity agreement between witness map, bastion handler and feeders (C12), through the
	// repository's own AsLogMap / config.NewLog
	// the wiring of the whole service: the real omniwitness.Main over recorders
	checks["C12"].Runs = append(checks["C12"].Runs, runSpec{Harness: pkgOmni + ".VerifWire", Quick: p("logs", 2, "wire", 1), Thorough: p("logs", 3, "wire", 1), Covers: []string{"wire/started", "wire/configuration-refused"}})
	// the distributor's side of identity: every PUT names the ID of the log whose checkpoint it carries
	checks["C12"].Runs = append(checks["C12"].Runs, runSpec{Harness: pkgRest + ".VerifDistribute", Domain: sym.DomString, Solver: sym.CVC5, Quick: p("logs", 2, "io_faults", 1), Thorough: p("logs", 3, "io_faults", 1), Covers: []string{"dist/pushed", "dist/all-succeeded"}})
	for _, id := range []string{"C02", "C12"} {
		checks[id].Runs = append(checks[id].Runs, runSpec{Harness: pkgOmni + ".VerifConfig", Domain: sym.DomString, Solver: sym.CVC5, Quick: p("logs", 3), Thorough: p("logs", 4), Covers: []string{"cfg/refused-at-start-up", "cfg/accepted"}})
	}
	checks["C12"].Runs = append(checks["C12"].Runs, runSpec{Harness: pkgOmni + ".VerifBastion", Quick: p("logs", 2, "maxproof", 1, "store", 0), Thorough: p("logs", 3, "maxproof", 1, "store", 0), Covers: []string{"bast/200", "bast/404"}})
	reg(&checkSpec{ID: "vc", Runs: vcRuns(), Assumptions: commonAssumptions})
	reg(&checkSpec{ID: "litmus", Runs: []runSpec{
		{Harness: pkgLitmus + ".Arith", Covers: []string{"L/cover-gt", "L/neg-int"}},
		{Harness: pkgLitmus + ".Structs"},
		{Harness: pkgLitmus + ".Maps", Covers: []string{"L/map-hit-lit", "L/map-miss-lit", "L/map-samekey"}},
		{Harness: pkgLitmus + ".Errors"},
		{Harness: pkgLitmus + ".BytesAlg", Covers: []string{"L/ctor-eq"}},
		{Harness: pkgLitmus + ".Loop", Covers: []string{"L/choose-2"}},
	}})
}

// ---------- known findings ----------

type knownFile struct {
	Findings []sym.KnownFinding `json:"findings"`
}

func loadKnown(path string) []sym.KnownFinding {
	b, err := os.ReadFile(path)
	if err != nil {
		return nil
	}
	var kf knownFile
	if err := json.Unmarshal(b, &kf); err != nil {
		fmt.Fprintf(os.Stderr, "known_findings.json: %v\n", err)
		os.Exit(2)
	}
	return kf.Findings
}

// ---------- evidence ----------

type evidence struct {
	PropertyID  string                 `json:"property_id"`
	Tier        string                 `json:"tier"`
	Seed        int                    `json:"seed"`
	Level       string                 `json:"level"`
	Coverage    map[string]interface{} `json:"coverage"`
	Assumptions []string               `json:"assumptions"`
	WallS       float64                `json:"wall_s"`
	Violations  int                    `json:"violations"`
	Verdict     string                 `json:"verdict"`
}

func cmdCheck(args []string) int {
	if len(args) < 1 {
		fmt.Fprintln(os.Stderr, "usage: wsym check <id> [--tier quick|thorough]")
		return 2
	}
	id := args[0]
	tier := "quick"
	for i := 1; i < len(args); i++ {
		if args[i] == "--tier" && i+1 < len(args) {
			tier = args[i+1]
			i++
		}
	}
	if t := os.Getenv("VERIF_TIER"); t == "quick" || t == "thorough" {
		tier = t
	}
	seed, _ := strconv.Atoi(os.Getenv("VERIF_SEED"))
	spec, ok := checks[id]
	if !ok {
		fmt.Fprintf(os.Stderr, "no check for %q\n", id)
		return 2
	}
	root := env("WSYM_ROOT", "/verif")
	t0 := time.Now()

	pkgSet := map[string]bool{}
	for _, r := range spec.Runs {
		i := strings.LastIndex(r.Harness, ".")
		pkgSet[r.Harness[:i]] = true
	}
	var patterns []string
	for k := range pkgSet {
		patterns = append(patterns, k)
	}
	sort.Strings(patterns)
	w, err := loadWorld(patterns)
	if err != nil {
		fmt.Fprintln(os.Stderr, "load:", err)
		fmt.Printf("INCONCLUSIVE property=%s reason=load-failed\n", id)
		return 2
	}
	known := loadKnown(filepath.Join(root, "known_findings.json"))
	var myKnown []sym.KnownFinding
	for _, k := range known {
		if k.Property == id {
			myKnown = append(myKnown, k)
		}
	}

	var reports []*sym.Report
	inconclusive := []string{}
	nViol := 0
	var violations []*sym.Violation
	var knownSeen []*sym.Violation
	for _, r := range spec.Runs {
		if r.OnlyThorough && tier != "thorough" {
			continue
		}
		params := r.Quick
		if tier == "thorough" && r.Thorough != nil {
			params = r.Thorough
		}
		cfg := &sym.RunConfig{Harness: r.Harness, Domain: r.Domain, Solver: r.Solver, Props: map[string]bool{id: true}, Params: params, Known: myKnown, Unwind: r.Unwind, TimeoutMs: r.TimeoutMs, CutOnUnwind: r.CutOnUnwind}
		if tier == "thorough" && cfg.TimeoutMs == 0 {
			cfg.TimeoutMs = 120000
		}
		if cfg.TimeoutMs == 0 {
			cfg.TimeoutMs = 20000
		}
		cfg.MaxWallSec = 180
		if tier == "thorough" {
			cfg.MaxWallSec = 3000
		}
		if wk := os.Getenv("WSYM_WORKERS"); wk != "" {
			cfg.Workers, _ = strconv.Atoi(wk)
		}
		rep, err := sym.Run(w, cfg)
		if err != nil {
			fmt.Fprintln(os.Stderr, "run:", err)
			inconclusive = append(inconclusive, r.Harness+": "+err.Error())
			continue
		}
		reports = append(reports, rep)
		for _, c := range r.Covers {
			if rep.Covers[c] == nil {
				inconclusive = append(inconclusive, fmt.Sprintf("%s: cover point %s not reached (vacuous harness?)", short(r.Harness), c))
			}
		}
		for _, u := range rep.Unsupported {
			inconclusive = append(inconclusive, short(r.Harness)+": "+u)
		}
		for _, u := range rep.Unknowns {
			inconclusive = append(inconclusive, short(r.Harness)+": "+u)
		}
		if rep.Truncated {
			inconclusive = append(inconclusive, short(r.Harness)+": path or time budget exhausted before all paths were explored")
		}
		for _, v := range rep.Violations {
			// violations of other properties' assertions cannot occur (their monitors are not armed);
			// panics and unwinding failures count for every property.
			violations = append(violations, v)
		}
		knownSeen = append(knownSeen, rep.KnownSeen...)
		nViol += len(rep.Violations)
		if os.Getenv("WSYM_STOP_ON_VIOLATION") != "" {
			// regression-matrix mode (tools/seedmatrix.sh): one solid violation decides the run
			solid := false
			for _, v := range rep.Violations {
				if len(v.Weak) == 0 {
					solid = true
				}
			}
			if solid {
				break
			}
		}
	}

	// ---- native replay of cover witnesses (translator validation) ----
	replayed, replayTotal := 0, 0
	{
		type scen struct {
			Cover string            `json:"cover"`
			Model map[string]string `json:"model"`
		}
		families := []struct {
			suffix, pkg, test string
			vios              bool // replay violation models of this harness family too
			anyModel          bool // every violation model is replayable (string-domain models are concrete)
		}{
			{".VerifUpdateStep", "internal/witness", "TestReplayCovers$", true, false},
			{".VerifBastion", "omniwitness", "TestReplayBastion$", true, false},
			{".VerifParseBodyRoundTrip", "internal/feeder/bastion", "TestReplayParseBody$", true, true},
			{".VerifParseBodyHashLengths", "internal/feeder/bastion", "TestReplayParseBody$", true, true},
		}
		for _, fam := range families {
			var scs []scen
			seen := map[string]bool{}
			for _, rep := range reports {
				if !strings.HasSuffix(rep.Harness, fam.suffix) {
					continue
				}
				var ids []string
				for c := range rep.Covers {
					ids = append(ids, c)
				}
				sort.Strings(ids)
				for _, c := range ids {
					if strings.HasPrefix(c, "replay/") && !seen[c] && rep.Covers[c].Model != nil {
						seen[c] = true
						scs = append(scs, scen{Cover: c, Model: rep.Covers[c].Model})
					}
				}
			}
			nCover := len(scs)
			// violations of the one-step harness whose model is replayable are rebuilt natively too
			var vioIdx []int
			if fam.vios {
				for vi, v := range violations {
					if strings.HasSuffix(v.Harness, fam.suffix) && v.Kind == "assert" && (v.Replayable || fam.anyModel) && v.Model != nil {
						vioIdx = append(vioIdx, vi)
						scs = append(scs, scen{Cover: "violation:" + v.Assert, Model: v.Model})
					}
				}
			}
			if len(scs) == 0 || os.Getenv("WSYM_NO_REPLAY") != "" {
				continue
			}
			replayTotal += nCover
			os.MkdirAll(filepath.Join(root, ".work"), 0o755)
			jf := filepath.Join(root, ".work", fmt.Sprintf("replay-%s-%d.json", id, os.Getpid()))
			b, _ := json.MarshalIndent(scs, "", " ")
			os.WriteFile(jf, b, 0o644)
			cmd := exec.Command(filepath.Join(root, "native", "run.sh"), fam.pkg, "-v", "-run", fam.test)
			cmd.Env = append(os.Environ(), "WSYM_REPLAY_JSON="+jf)
			out, err := cmd.CombinedOutput()
			txt := string(out)
			got := 0
			if i := strings.Index(txt, "REPLAYED "); i >= 0 {
				fmt.Sscanf(txt[i:], "REPLAYED %d ", &got)
			}
			replayed += got
			// per-scenario oracle verdicts
			oracle := map[int]string{}
			seenSc := map[int]bool{}
			for _, l := range strings.Split(txt, "\n") {
				var si int
				var name string
				if n, _ := fmt.Sscanf(l, "SCENARIO %d %s", &si, &name); n == 2 {
					seenSc[si] = true
					if j := strings.Index(l, "oracles="); j >= 0 {
						oracle[si] = strings.TrimSpace(l[j+len("oracles="):])
					}
					if si < nCover && oracle[si] != "" {
						inconclusive = append(inconclusive, fmt.Sprintf("native replay: cover witness %s violates native oracle(s) %s on the real build", name, oracle[si]))
					}
				}
			}
			for k, vi := range vioIdx {
				si := nCover + k
				switch {
				case !seenSc[si] || strings.Contains(txt, fmt.Sprintf("SCENARIO %d %s unreplayable", si, scs[si].Cover)):
				case oracle[si] != "":
					violations[vi].Replay = "confirmed natively (oracles: " + oracle[si] + ")"
				default:
					violations[vi].Replay = "not-reproduced"
				}
			}
			if err != nil || strings.Contains(txt, "REPLAY MISMATCH") || got != nCover {
				for _, l := range strings.Split(txt, "\n") {
					if strings.Contains(l, "REPLAY MISMATCH") || strings.Contains(l, "FAIL") || strings.Contains(l, "panic") {
						inconclusive = append(inconclusive, "native replay: "+strings.TrimSpace(l))
					}
				}
				if got != nCover {
					inconclusive = append(inconclusive, fmt.Sprintf("native replay (%s) validated %d of %d cover witnesses (the encoding or a contract disagrees with the real build)", fam.pkg, got, nCover))
				}
			}
			os.Remove(jf)
		}
		// a violation that rests on uninterpreted stand-ins (byte scans of opaque bytes) is reported
		// only if the real build reproduced it; otherwise the check is inconclusive
		var kept []*sym.Violation
		for _, v := range violations {
			if len(v.Weak) > 0 && !strings.HasPrefix(v.Replay, "confirmed") {
				inconclusive = append(inconclusive, fmt.Sprintf("%s: assertion %s fails only under an uninterpreted model of %v and the native replay did not confirm it (%s)", short(v.Harness), v.Assert, v.Weak, orStr(v.Replay, "not replayable")))
				continue
			}
			kept = append(kept, v)
		}
		nViol -= len(violations) - len(kept)
		violations = kept
	}

	// ---- replay artefacts and verdict lines ----
	replayDir := filepath.Join(root, ".work", "replay")
	os.MkdirAll(replayDir, 0o755)
	seenK := map[string]bool{}
	for _, v := range knownSeen {
		if seenK[v.Known] {
			continue
		}
		seenK[v.Known] = true
		what := v.Msg
		for _, k := range myKnown {
			if k.ID == v.Known {
				what = k.ID + ": " + k.What
			}
		}
		fmt.Printf("KNOWN-FINDING: property=%s %s\n", id, what)
	}
	for i, v := range violations {
		dir := filepath.Join(replayDir, fmt.Sprintf("%s-%s-%d", id, tier, i))
		os.MkdirAll(dir, 0o755)
		b, _ := json.MarshalIndent(v, "", " ")
		os.WriteFile(filepath.Join(dir, "violation.json"), b, 0o644)
		fmt.Printf("VIOLATION property=%s replay=%s\n", id, dir)
		fmt.Printf("  assertion %s (%s) %s\n", v.Assert, v.Kind, v.Msg)
		if v.Replay != "" {
			fmt.Printf("  native replay of the solver's model: %s\n", v.Replay)
		}
	}
	for _, s := range inconclusive {
		fmt.Printf("INCONCLUSIVE property=%s %s\n", id, s)
	}

	// ---- evidence ----
	ev := evidence{PropertyID: id, Tier: tier, Seed: seed, Level: "model_checking", Assumptions: spec.Assumptions, Violations: nViol}
	states, trans, obl, dis := 0, 0, 0, 0
	var solverS float64
	var samples []interface{}
	var runs []interface{}
	covers := map[string]string{}
	for _, rep := range reports {
		states += rep.Paths
		trans += rep.Queries
		obl += rep.Obligations
		dis += rep.Discharged
		solverS += rep.SolverSec
		for _, s := range rep.Samples {
			if len(samples) < 8 {
				samples = append(samples, map[string]interface{}{"harness": short(rep.Harness), "path": s})
			}
		}
		for c, hit := range rep.Covers {
			covers[c] = "sat"
			if len(samples) < 12 {
				samples = append(samples, map[string]interface{}{"harness": short(rep.Harness), "cover": c, "model": hit.Model})
			}
		}
		runs = append(runs, map[string]interface{}{
			"harness": rep.Harness, "params": rep.Params, "paths": rep.Paths, "paths_completed": rep.PathsOK,
			"paths_infeasible": rep.Infeasible, "paths_cut_by_bound": rep.Cut, "paths_panic": rep.Panics,
			"obligations": rep.Obligations, "discharged": rep.Discharged, "queries": rep.Queries,
			"solver_time_s": round2(rep.SolverSec), "wall_s": round2(rep.WallSec), "unwind_max_seen": rep.MaxUnwind,
			"solver": rep.Solver, "notes": rep.Notes, "cover_reached": rep.CoverIDs,
		})
	}
	if len(samples) == 0 {
		samples = append(samples, map[string]interface{}{"note": "no completed path produced a sample model"})
	}
	kfs := []string{}
	for k := range seenK {
		kfs = append(kfs, k)
	}
	sort.Strings(kfs)
	ev.Coverage = map[string]interface{}{
		"states":                        states,
		"transitions":                   trans,
		"traces_validated_against_impl": replayed,
		"cover_witnesses_replayed_of":   replayTotal,
		"samples":                       samples,
		"obligations":                   obl,
		"discharged":                    dis,
		"exhaustive":                    false,
		"explanation":                   "states = complete symbolic paths explored (each covers every concrete value of its inputs satisfying the path condition); transitions = SMT queries decided; obligations = assertion instances, discharged = those proved unsat within the stated bounds",
		"runs":                          runs,
		"functions_encoded":             w.EncodedFunctions(),
		"stubs_used":                    w.StubsUsed(),
		"solver_time_s":                 round2(solverS),
		"load_time_s":                   round2(w.LoadSec),
		"cover":                         covers,
		"known_findings_seen":           kfs,
		"inconclusive":                  inconclusive,
	}
	ev.WallS = round2(time.Since(t0).Seconds())
	switch {
	case nViol > 0:
		ev.Verdict = "violation"
	case len(inconclusive) > 0:
		ev.Verdict = "inconclusive"
	default:
		ev.Verdict = "holds-within-bounds"
	}
	if strings.HasPrefix(id, "C") && os.Getenv("WSYM_NO_EVIDENCE") == "" {
		os.MkdirAll(filepath.Join(root, "evidence"), 0o755)
		b, _ := json.MarshalIndent(ev, "", " ")
		if err := os.WriteFile(filepath.Join(root, "evidence", id+".json"), b, 0o644); err != nil {
			fmt.Fprintln(os.Stderr, "evidence:", err)
			return 2
		}
	}
	fmt.Printf("%s tier=%s verdict=%s paths=%d queries=%d obligations=%d/%d replayed=%d/%d wall=%.1fs\n", id, tier, ev.Verdict, states, trans, dis, obl, replayed, replayTotal, ev.WallS)
	if nViol > 0 {
		return 1
	}
	if len(inconclusive) > 0 {
		return 2
	}
	return 0
}

func orStr(a, b string) string {
	if a != "" {
		return a
	}
	return b
}

func short(h string) string {
	if i := strings.LastIndex(h, "/"); i >= 0 {
		return h[i+1:]
	}
	return h
}

func round2(f float64) float64 { return float64(int(f*100+0.5)) / 100 }
