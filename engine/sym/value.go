package sym

import (
	"fmt"
	"go/types"

	"golang.org/x/tools/go/ssa"
)

// Value is a run-time value of the symbolic interpreter.
//
//	*Term      bool / integers / strings (sort Bool, BV, Bytes or String)
//	Ptr        pointers
//	*StructV   struct values (immutable, functional update)
//	*ArrayV    array values (immutable, functional update)
//	SliceV     slices with concrete offset/len/cap over an *Obj holding *ArrayV
//	ByteSlice  []byte represented as one term (algebra / string domain)
//	ByteArr    [N]byte represented as one term (algebra domain)
//	IfaceV     interface values with concrete dynamic type
//	*FuncV     function values / closures
//	MapV       maps (bounded list of entries, symbolic keys allowed)
//	TupleV     multi-value results
//	*IterV     map / string iterators
type Value interface{}

type Obj struct {
	V    Value
	ID   int
	Name string
}

type Ptr struct {
	O    *Obj
	Path []int
	// Fn is set for pointers that are really opaque handles compared by identity only.
}

func (p Ptr) IsNil() bool { return p.O == nil }

type StructV struct{ F []Value }
type ArrayV struct{ E []Value }

type SliceV struct {
	O             *Obj
	Off, Len, Cap int
}

type ByteSlice struct {
	Nil  bool
	T    *Term
	Back *Ptr // when the slice aliases a [N]byte variable: h[:]
	// Resliced: obtained by x[lo:hi] from another opaque []byte, i.e. it shares that slice's
	// backing array (possibly with spare capacity). Appending to it may write through.
	Resliced bool
	// Buf identifies the backing array of an opaque []byte that the engine saw being allocated
	// (nil: unknown provenance). AtStart: the slice begins at the first byte of that array.
	// Together they let append onto a re-sliced x[:0] write through to every other live slice
	// of the same array (see appendThrough).
	Buf     *byteBuf
	AtStart bool
	// Vol / Epoch: the slice points into a bufio.Reader's internal buffer (result of ReadLine);
	// bufio documents it as valid only until the next read on that reader.
	Vol   *readerState
	Epoch int
}

// byteBuf is the identity of one backing array of an opaque []byte. Cap is its capacity: an
// arbitrary value not below the length it was allocated with (the allocator's choice).
type byteBuf struct {
	id   int
	born *Term // the bytes it was allocated for
	cap  *Term // created when first needed
}

type ByteArr struct {
	T *Term
	N int
}

type IfaceV struct {
	T types.Type // nil for the nil interface
	V Value
}

type FuncV struct {
	Fn    *ssa.Function
	FV    []Value
	Bltin *ssa.Builtin
}

type MapObj struct {
	Keys, Vals []Value
	ID         int
}

type MapV struct{ M *MapObj }

type TupleV []Value

type IterV struct {
	keys, vals []Value
	i          int
}

type ChanV struct{ id int }

// ByteCell is &b[i] for an opaque []byte b.
type ByteCell struct {
	B ByteSlice
	I *Term
}

// LazyV is a contract value that is computed (possibly forking) only when the code under
// analysis first looks at it: fields of library results that most callers never read.
type LazyV struct {
	Fn     *FuncV
	forced bool
	V      Value
}

// pathKey returns a comparable rendering of a pointer for identity comparison.
func (p Ptr) same(q Ptr) bool {
	if p.O != q.O || len(p.Path) != len(q.Path) {
		return false
	}
	for i := range p.Path {
		if p.Path[i] != q.Path[i] {
			return false
		}
	}
	return true
}

func isByte(t types.Type) bool {
	b, ok := t.Underlying().(*types.Basic)
	return ok && (b.Kind() == types.Uint8)
}

func intWidth(b *types.Basic) (w int, signed bool, ok bool) {
	switch b.Kind() {
	case types.Int8:
		return 8, true, true
	case types.Int16:
		return 16, true, true
	case types.Int32, types.UntypedRune:
		return 32, true, true
	case types.Int, types.Int64, types.UntypedInt:
		return 64, true, true
	case types.Uint8:
		return 8, false, true
	case types.Uint16:
		return 16, false, true
	case types.Uint32:
		return 32, false, true
	case types.Uint, types.Uint64, types.Uintptr:
		return 64, false, true
	}
	return 0, false, false
}

func isSigned(t types.Type) bool {
	if b, ok := t.Underlying().(*types.Basic); ok {
		_, s, ok := intWidth(b)
		return ok && s
	}
	return false
}

// zero returns the zero value of type t.
func (m *Machine) zero(t types.Type) Value {
	switch u := t.Underlying().(type) {
	case *types.Basic:
		if u.Info()&types.IsBoolean != 0 {
			return False
		}
		if w, _, ok := intWidth(u); ok {
			return BVC(w, 0)
		}
		if u.Info()&types.IsString != 0 {
			return m.strLit("")
		}
		if u.Info()&types.IsFloat != 0 {
			return BVC(64, 0)
		}
		if u.Kind() == types.UnsafePointer {
			return Ptr{}
		}
		if u.Kind() == types.UntypedNil {
			return nil
		}
		panic(m.unsupported("zero of basic type %s", t))
	case *types.Pointer:
		return Ptr{}
	case *types.Slice:
		if isByte(u.Elem()) {
			return ByteSlice{Nil: true, T: m.strLit("")}
		}
		return SliceV{}
	case *types.Map:
		return MapV{}
	case *types.Interface:
		return IfaceV{}
	case *types.Signature:
		return (*FuncV)(nil)
	case *types.Chan:
		return ChanV{}
	case *types.Struct:
		f := make([]Value, u.NumFields())
		for i := range f {
			f[i] = m.zero(u.Field(i).Type())
		}
		return &StructV{F: f}
	case *types.Array:
		if isByte(u.Elem()) && m.Domain != DomArray {
			return ByteArr{T: m.zeroBytes(int(u.Len())), N: int(u.Len())}
		}
		e := make([]Value, u.Len())
		z := m.zero(u.Elem())
		for i := range e {
			e[i] = z
		}
		return &ArrayV{E: e}
	case *types.Tuple:
		tv := make(TupleV, u.Len())
		for i := range tv {
			tv[i] = m.zero(u.At(i).Type())
		}
		return tv
	}
	panic(m.unsupported("zero of type %s", t))
}

func navigate(v Value, path []int) Value {
	for _, i := range path {
		switch x := v.(type) {
		case *StructV:
			v = x.F[i]
		case *ArrayV:
			v = x.E[i]
		default:
			panic(fmt.Sprintf("navigate: cannot index %T", v))
		}
	}
	return v
}

func update(v Value, path []int, nv Value) Value {
	if len(path) == 0 {
		return nv
	}
	i := path[0]
	switch x := v.(type) {
	case *StructV:
		f := make([]Value, len(x.F))
		copy(f, x.F)
		f[i] = update(x.F[i], path[1:], nv)
		return &StructV{F: f}
	case *ArrayV:
		e := make([]Value, len(x.E))
		copy(e, x.E)
		e[i] = update(x.E[i], path[1:], nv)
		return &ArrayV{E: e}
	}
	panic(fmt.Sprintf("update: cannot index %T", v))
}

func (m *Machine) newObj(v Value, name string) *Obj {
	m.objSeq++
	return &Obj{V: v, ID: m.objSeq, Name: name}
}

func (m *Machine) load(p Ptr) Value {
	if p.O == nil {
		panic(m.goPanic("nil pointer dereference"))
	}
	return navigate(p.O.V, p.Path)
}

func (m *Machine) store(p Ptr, v Value) {
	if p.O == nil {
		panic(m.goPanic("nil pointer dereference (store)"))
	}
	p.O.V = update(p.O.V, p.Path, v)
}
