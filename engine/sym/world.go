package sym

import (
	"crypto/sha256"
	"fmt"
	"go/ast"
	"go/types"
	"os"
	"path/filepath"
	"sort"
	"strings"
	"sync"

	"golang.org/x/tools/go/packages"
	"golang.org/x/tools/go/ssa"
	"golang.org/x/tools/go/ssa/ssautil"
)

// World is the program-level state shared by all paths of all harness runs.
type World struct {
	Prog    *ssa.Program
	Pkgs    map[string]*ssa.Package
	Replace map[string]*ssa.Function
	// InitPkgs are the packages whose init functions are executed at path start.
	InitPkgs     map[string]bool
	AllowPrefix  []string
	ErrorType    types.Type
	SentinelType types.Type
	FmtErrType   types.Type
	Lits         *litTable

	mu      sync.Mutex
	fnsSeen map[*ssa.Function]bool
	stubs   map[string]bool
	srcHash map[string]string
	LoadSec float64
}

const repoMod = "github.com/transparency-dev/witness"

// LoadOptions describe where the repository and harness overlays live.
type LoadOptions struct {
	RepoDir    string // /repo
	EngineDir  string // module directory used as packages.Config.Dir
	HarnessDir string // directory tree mirrored onto RepoDir by overlay
	Patterns   []string
}

// Load type-checks the repository (with the harness overlay) and builds SSA.
func Load(opt LoadOptions) (*World, error) {
	overlay := map[string][]byte{}
	err := filepath.Walk(opt.HarnessDir, func(p string, info os.FileInfo, err error) error {
		if err != nil {
			return err
		}
		if info.IsDir() || !strings.HasSuffix(p, ".go") {
			return nil
		}
		rel, _ := filepath.Rel(opt.HarnessDir, p)
		b, err := os.ReadFile(p)
		if err != nil {
			return err
		}
		overlay[filepath.Join(opt.RepoDir, rel)] = b
		return nil
	})
	if err != nil {
		return nil, err
	}
	cfg := &packages.Config{
		Mode:       packages.LoadAllSyntax,
		Dir:        opt.EngineDir,
		Overlay:    overlay,
		BuildFlags: []string{"-tags=verifsym"},
		Env:        append(os.Environ(), "GOFLAGS=-mod=mod", "GOPROXY=off", "GOSUMDB=off", "GOTOOLCHAIN=local", "CGO_ENABLED=0"),
	}
	pkgs, err := packages.Load(cfg, opt.Patterns...)
	if err != nil {
		return nil, err
	}
	nerr := 0
	packages.Visit(pkgs, nil, func(p *packages.Package) {
		for _, e := range p.Errors {
			// cgo-only packages (sqlite3) fail without cgo; they are never executed.
			if strings.Contains(p.PkgPath, "go-sqlite3") {
				continue
			}
			fmt.Fprintf(os.Stderr, "load error: %s: %v\n", p.PkgPath, e)
			nerr++
		}
	})
	if nerr > 0 {
		return nil, fmt.Errorf("%d package load errors", nerr)
	}
	prog, _ := ssautil.AllPackages(pkgs, ssa.InstantiateGenerics)
	prog.Build()

	w := &World{
		Prog:     prog,
		Pkgs:     map[string]*ssa.Package{},
		Replace:  map[string]*ssa.Function{},
		InitPkgs: map[string]bool{},
		Lits:     newLitTable(),
		fnsSeen:  map[*ssa.Function]bool{},
		stubs:    map[string]bool{},
		srcHash:  map[string]string{},
		AllowPrefix: []string{
			repoMod,
			"github.com/transparency-dev/merkle",
			"golang.org/x/mod/sumdb/tlog",
			"github.com/transparency-dev/formats/log",
			"github.com/cenkalti/backoff/v4",
			// pure-Go generic helpers of the standard library are executed as they are
			"slices", "maps", "cmp",
		},
	}
	for _, p := range prog.AllPackages() {
		w.Pkgs[p.Pkg.Path()] = p
		if (strings.HasPrefix(p.Pkg.Path(), repoMod) && !strings.Contains(p.Pkg.Path(), "/cmd/")) || strings.HasPrefix(p.Pkg.Path(), "github.com/transparency-dev/merkle/rfc6962") {
			w.InitPkgs[p.Pkg.Path()] = true
		}
	}
	w.ErrorType = types.Universe.Lookup("error").Type()
	rt := w.Pkgs[rtPkg]
	if rt == nil {
		return nil, fmt.Errorf("verifrt package %s not loaded", rtPkg)
	}
	if t := rt.Type("SentinelErr"); t != nil {
		w.SentinelType = types.NewPointer(t.Type())
	} else {
		return nil, fmt.Errorf("verifrt.SentinelErr missing")
	}
	if t := rt.Type("FmtErr"); t != nil {
		w.FmtErrType = types.NewPointer(t.Type())
	} else {
		return nil, fmt.Errorf("verifrt.FmtErr missing")
	}
	// scan //wsym:replace directives in every package that lives under the harness overlay
	packages.Visit(pkgs, nil, func(p *packages.Package) {
		if !strings.HasPrefix(p.PkgPath, repoMod) {
			return
		}
		sp := w.Pkgs[p.PkgPath]
		for _, f := range p.Syntax {
			for _, d := range f.Decls {
				fd, ok := d.(*ast.FuncDecl)
				if !ok || fd.Doc == nil || fd.Recv != nil {
					continue
				}
				for _, c := range fd.Doc.List {
					const pre = "//wsym:replace "
					if strings.HasPrefix(c.Text, pre) {
						target := strings.TrimSpace(c.Text[len(pre):])
						fn := sp.Func(fd.Name.Name)
						if fn == nil {
							continue
						}
						w.Replace[target] = fn
					}
				}
			}
		}
	})
	return w, nil
}

func (w *World) noteFn(fn *ssa.Function) {
	w.mu.Lock()
	w.fnsSeen[fn] = true
	w.mu.Unlock()
}

func (w *World) noteStub(name string) {
	w.mu.Lock()
	w.stubs[name] = true
	w.mu.Unlock()
}

// Deny reports whether fn (which has a body) is outside the set the executor may enter.
func (w *World) Deny(fn *ssa.Function) bool {
	pkg := fn.Pkg
	if pkg == nil {
		if fn.Origin() != nil {
			pkg = fn.Origin().Pkg
		}
		if pkg == nil {
			// synthetic wrappers ($bound, $thunk) have no package: allow
			return false
		}
	}
	p := pkg.Pkg.Path()
	for _, a := range w.AllowPrefix {
		if strings.HasPrefix(p, a) {
			return false
		}
	}
	return true
}

// ReaderIfaceType is a concrete dynamic type for engine-made io.Reader values (*bytes.Reader).
func (w *World) ReaderIfaceType() types.Type {
	if p := w.Pkgs["bytes"]; p != nil {
		if t := p.Type("Reader"); t != nil {
			return types.NewPointer(t.Type())
		}
	}
	return nil
}

// FuncInfo describes an encoded function for the evidence file.
type FuncInfo struct {
	Fn     string `json:"fn"`
	Instrs int    `json:"instrs"`
	SrcSHA string `json:"src_sha,omitempty"`
	File   string `json:"file,omitempty"`
}

func (w *World) EncodedFunctions() []FuncInfo {
	w.mu.Lock()
	defer w.mu.Unlock()
	var out []FuncInfo
	for fn := range w.fnsSeen {
		n := 0
		for _, b := range fn.Blocks {
			n += len(b.Instrs)
		}
		fi := FuncInfo{Fn: fn.String(), Instrs: n}
		if fn.Pos().IsValid() && fn.Syntax() != nil {
			start := w.Prog.Fset.Position(fn.Syntax().Pos())
			end := w.Prog.Fset.Position(fn.Syntax().End())
			fi.File = shortFile(start.Filename)
			if !strings.Contains(start.Filename, "verifrt") && !strings.Contains(start.Filename, "zz_verif") {
				if b, err := os.ReadFile(start.Filename); err == nil && end.Offset <= len(b) {
					h := sha256.Sum256(b[start.Offset:end.Offset])
					fi.SrcSHA = fmt.Sprintf("%x", h[:6])
				}
			}
		}
		out = append(out, fi)
	}
	sort.Slice(out, func(i, j int) bool { return out[i].Fn < out[j].Fn })
	return out
}

func (w *World) StubsUsed() []string {
	w.mu.Lock()
	defer w.mu.Unlock()
	var out []string
	for s := range w.stubs {
		out = append(out, s)
	}
	sort.Strings(out)
	return out
}

// ResetSeen clears the per-run function/stub bookkeeping.
func (w *World) ResetSeen() {
	w.mu.Lock()
	w.fnsSeen = map[*ssa.Function]bool{}
	w.stubs = map[string]bool{}
	w.mu.Unlock()
}

// FindFunc resolves "pkgpath.Func".
func (w *World) FindFunc(q string) (*ssa.Function, error) {
	i := strings.LastIndex(q, ".")
	if i < 0 {
		return nil, fmt.Errorf("bad function name %q", q)
	}
	p := w.Pkgs[q[:i]]
	if p == nil {
		return nil, fmt.Errorf("package %q not loaded", q[:i])
	}
	fn := p.Func(q[i+1:])
	if fn == nil {
		return nil, fmt.Errorf("function %q not found", q)
	}
	return fn, nil
}
