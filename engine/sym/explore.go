package sym

import (
	"fmt"
	"os"
	"sort"
	"strings"
	"sync"
	"time"

	"golang.org/x/tools/go/ssa"
)

// Decision is one recorded choice on a path: C for alternatives, V for concretised values.
type Decision struct {
	C int    `json:"c,omitempty"`
	V uint64 `json:"v,omitempty"`
}

// KnownFinding is a listed, unrepaired defect: a predicate over named harness terms.
type KnownFinding struct {
	Status    string   `json:"status"` // "known" or "fixed"
	Property  string   `json:"property"`
	ID        string   `json:"id"`
	Assert    string   `json:"assert"`    // assertion id the finding belongs to
	Names     []string `json:"names"`     // named terms the predicate mentions
	Predicate string   `json:"predicate"` // SMT-LIB over those names
	What      string   `json:"what"`
	Why       string   `json:"why_not_fixed,omitempty"`
	Commit    string   `json:"commit,omitempty"`
}

// RunConfig parameterises one harness run.
type RunConfig struct {
	Harness       string
	Domain        Domain
	Props         map[string]bool
	Params        map[string]int
	Unwind        int
	MaxDepth      int
	MaxSteps      int
	MaxAlloc      int
	MaxConcretize int
	MaxPaths      int
	Workers       int
	Solver        SolverKind
	TimeoutMs     int
	Known         []KnownFinding
	// CutOnUnwind turns an exceeded loop bound into "outside the stated bound" (for loops
	// whose trip count is the stated bound itself, e.g. the number of proof lines).
	CutOnUnwind bool
	// MaxWallSec stops the exploration of this harness after that many seconds (result: truncated).
	MaxWallSec int
	// ExpectPanic lists panic sites (substring match) that the harness treats as its subject.
	Quiet bool
}

func (c *RunConfig) defaults() {
	if c.Unwind == 0 {
		c.Unwind = 80
	}
	if c.MaxDepth == 0 {
		c.MaxDepth = 120
	}
	if c.MaxSteps == 0 {
		c.MaxSteps = 3_000_000
	}
	if c.MaxAlloc == 0 {
		c.MaxAlloc = 4096
	}
	if c.MaxConcretize == 0 {
		c.MaxConcretize = 80
	}
	if c.MaxPaths == 0 {
		c.MaxPaths = 2_000_000
	}
	if c.Workers == 0 {
		c.Workers = 16
	}
	if c.Solver == "" {
		c.Solver = Z3
	}
	if c.TimeoutMs == 0 {
		c.TimeoutMs = 60000
	}
}

type Violation struct {
	Assert  string            `json:"assert"`
	Harness string            `json:"harness"`
	Kind    string            `json:"kind"` // "assert", "panic", "unwind"
	Msg     string            `json:"msg,omitempty"`
	Model   map[string]string `json:"model,omitempty"`
	Labels  []string          `json:"decisions,omitempty"`
	Trace   []Decision        `json:"trace,omitempty"`
	Known   string            `json:"known_finding,omitempty"`
	// Replayable: the model satisfies the harness's replay preferences (small sizes).
	Replayable bool `json:"replayable,omitempty"`
	// Weak: uninterpreted stand-ins (e.g. byte scans of opaque bytes) were used on the path; the
	// violation is reported only if the native replay confirms it.
	Weak   []string `json:"weak,omitempty"`
	Replay string   `json:"replay,omitempty"` // "confirmed", "not-reproduced", ""
}

type CoverHit struct {
	ID     string            `json:"id"`
	Model  map[string]string `json:"model,omitempty"`
	Labels []string          `json:"decisions,omitempty"`
}

type PathResult struct {
	Trace       []Decision
	Labels      []string
	Outcome     string // "ok", "infeasible", "panic", "unsupported", "unwind", "budget", "cut"
	Msg         string
	Obligations int
	Discharged  int
	Unknowns    []string
	MaxUnwind   int
	Violations  []*Violation
	Notes       []string
	Sample      map[string]string
}

// Report aggregates one harness run.
type Report struct {
	Harness     string               `json:"harness"`
	Paths       int                  `json:"paths"`
	PathsOK     int                  `json:"paths_completed"`
	Infeasible  int                  `json:"paths_infeasible"`
	Cut         int                  `json:"paths_cut_by_bound"`
	Panics      int                  `json:"paths_panic"`
	Unsupported []string             `json:"unsupported,omitempty"`
	UnwindFail  []string             `json:"unwind_failures,omitempty"`
	Obligations int                  `json:"obligations"`
	Discharged  int                  `json:"discharged"`
	Unknowns    []string             `json:"unknown,omitempty"`
	Queries     int                  `json:"queries"`
	SolverSec   float64              `json:"solver_time_s"`
	WallSec     float64              `json:"wall_s"`
	MaxUnwind   int                  `json:"unwind_max_seen"`
	Violations  []*Violation         `json:"violations,omitempty"`
	KnownSeen   []*Violation         `json:"known_findings_seen,omitempty"`
	Covers      map[string]*CoverHit `json:"-"`
	CoverIDs    []string             `json:"cover_reached"`
	Samples     []interface{}        `json:"samples,omitempty"`
	Notes       []string             `json:"notes,omitempty"`
	Params      map[string]int       `json:"params,omitempty"`
	Truncated   bool                 `json:"truncated,omitempty"`
	Solver      string               `json:"solver"`
}

type Explorer struct {
	W     *World
	Cfg   *RunConfig
	Entry *ssa.Function

	mu      sync.Mutex
	cond    *sync.Cond
	work    [][]Decision
	active  int
	pushed  int
	rep     *Report
	covered map[string]bool
	notes   map[string]bool
	stop    bool
	t0      time.Time
	kfSeen  map[string]bool
	vioSeen map[string]int
}

func (ex *Explorer) push(p []Decision) {
	ex.mu.Lock()
	ex.work = append(ex.work, p)
	ex.pushed++
	ex.mu.Unlock()
	ex.cond.Signal()
}

// Run explores all paths of the harness.
func Run(w *World, cfg *RunConfig) (*Report, error) {
	cfg.defaults()
	entry, err := w.FindFunc(cfg.Harness)
	if err != nil {
		return nil, err
	}
	ex := &Explorer{W: w, Cfg: cfg, Entry: entry, covered: map[string]bool{}, notes: map[string]bool{}, kfSeen: map[string]bool{}, vioSeen: map[string]int{}}
	ex.cond = sync.NewCond(&ex.mu)
	ex.rep = &Report{Harness: cfg.Harness, Covers: map[string]*CoverHit{}, Params: cfg.Params, Solver: string(cfg.Solver)}
	ex.work = append(ex.work, nil)
	t0 := time.Now()
	ex.t0 = t0
	var wg sync.WaitGroup
	var solvers []*Solver
	var smu sync.Mutex
	for i := 0; i < cfg.Workers; i++ {
		wg.Add(1)
		go func() {
			defer wg.Done()
			s, err := NewSolver(cfg.Solver, cfg.TimeoutMs)
			if err != nil {
				fmt.Fprintf(os.Stderr, "solver: %v\n", err)
				return
			}
			smu.Lock()
			solvers = append(solvers, s)
			smu.Unlock()
			ex.worker(s)
		}()
	}
	doneCh := make(chan struct{})
	if os.Getenv("WSYM_PROGRESS") != "" {
		go func() {
			tk := time.NewTicker(10 * time.Second)
			defer tk.Stop()
			for {
				select {
				case <-doneCh:
					return
				case <-tk.C:
					ex.mu.Lock()
					fmt.Fprintf(os.Stderr, "[%s %.0fs] paths=%d queue=%d active=%d viol=%d\n", cfg.Harness[strings.LastIndex(cfg.Harness, ".")+1:], time.Since(t0).Seconds(), ex.rep.Paths, len(ex.work), ex.active, len(ex.rep.Violations))
					ex.mu.Unlock()
				}
			}
		}()
	}
	wg.Wait()
	close(doneCh)
	for _, s := range solvers {
		ex.rep.Queries += s.Queries
		ex.rep.SolverSec += s.Time.Seconds()
		s.Close()
	}
	ex.rep.WallSec = time.Since(t0).Seconds()
	for id := range ex.rep.Covers {
		ex.rep.CoverIDs = append(ex.rep.CoverIDs, id)
	}
	sort.Strings(ex.rep.CoverIDs)
	for n := range ex.notes {
		ex.rep.Notes = append(ex.rep.Notes, n)
	}
	sort.Strings(ex.rep.Notes)
	sort.Strings(ex.rep.Unsupported)
	sort.Strings(ex.rep.Unknowns)
	sort.Slice(ex.rep.Violations, func(i, j int) bool { return ex.rep.Violations[i].Assert < ex.rep.Violations[j].Assert })
	return ex.rep, nil
}

func (ex *Explorer) worker(s *Solver) {
	for {
		ex.mu.Lock()
		for len(ex.work) == 0 && ex.active > 0 && !ex.stop {
			ex.cond.Wait()
		}
		if ex.stop || (len(ex.work) == 0 && ex.active == 0) {
			ex.mu.Unlock()
			ex.cond.Broadcast()
			return
		}
		p := ex.work[len(ex.work)-1]
		ex.work = ex.work[:len(ex.work)-1]
		ex.active++
		ex.mu.Unlock()

		res := ex.runPath(s, p)
		if s.Dead() {
			ex.mu.Lock()
			ex.rep.Queries += s.Queries
			ex.rep.SolverSec += s.Time.Seconds()
			ex.rep.Unknowns = appendUniq(ex.rep.Unknowns, []string{"a solver process stopped answering and was restarted"}, 50)
			ex.mu.Unlock()
			s.Close()
			ns, err := NewSolver(ex.Cfg.Solver, ex.Cfg.TimeoutMs)
			if err != nil {
				fmt.Fprintf(os.Stderr, "solver restart: %v\n", err)
			} else {
				*s = *ns
			}
		}

		ex.mu.Lock()
		ex.active--
		ex.merge(res)
		if ex.rep.Paths >= ex.Cfg.MaxPaths || (ex.Cfg.MaxWallSec > 0 && time.Since(ex.t0) > time.Duration(ex.Cfg.MaxWallSec)*time.Second && (len(ex.work) > 0 || ex.active > 0)) {
			ex.stop = true
			ex.rep.Truncated = true
		}
		ex.mu.Unlock()
		ex.cond.Broadcast()
	}
}

func (ex *Explorer) merge(r *PathResult) {
	rep := ex.rep
	rep.Paths++
	rep.Obligations += r.Obligations
	rep.Discharged += r.Discharged
	rep.Unknowns = appendUniq(rep.Unknowns, r.Unknowns, 50)
	if r.MaxUnwind > rep.MaxUnwind {
		rep.MaxUnwind = r.MaxUnwind
	}
	switch r.Outcome {
	case "exit":
		rep.PathsOK++ // the program under test ended the process deliberately (klog.Fatal / Exit)
	case "ok":
		rep.PathsOK++
		if len(rep.Samples) < 6 && r.Sample != nil && (rep.PathsOK%7 == 1 || len(rep.Samples) == 0) {
			rep.Samples = append(rep.Samples, map[string]interface{}{"decisions": r.Labels, "model": r.Sample, "outcome": r.Outcome})
		}
	case "infeasible":
		rep.Infeasible++
	case "cut":
		rep.Cut++
	case "panic":
		rep.Panics++
	case "unsupported", "budget":
		rep.Unsupported = appendUniq(rep.Unsupported, []string{r.Outcome + ": " + r.Msg}, 50)
	case "unwind":
		rep.UnwindFail = appendUniq(rep.UnwindFail, []string{r.Msg}, 50)
	}
	for _, v := range r.Violations {
		if v.Known != "" {
			if !ex.kfSeen[v.Known] {
				ex.kfSeen[v.Known] = true
				rep.KnownSeen = append(rep.KnownSeen, v)
			}
			continue
		}
		ex.vioSeen[v.Assert]++
		if ex.vioSeen[v.Assert] <= 3 {
			rep.Violations = append(rep.Violations, v)
		} else if v.Replayable || len(v.Weak) == 0 {
			// keep at most three per assertion, but prefer models the native replay can rebuild,
			// and violations that do not depend on an uninterpreted stand-in over ones that do
			for i, old := range rep.Violations {
				if old.Assert != v.Assert {
					continue
				}
				if (v.Replayable && !old.Replayable) || (len(v.Weak) == 0 && len(old.Weak) > 0) {
					rep.Violations[i] = v
					break
				}
			}
		}
	}
	for _, n := range r.Notes {
		ex.notes[n] = true
	}
}

func appendUniq(dst, src []string, max int) []string {
	for _, s := range src {
		found := false
		for _, d := range dst {
			if d == s {
				found = true
				break
			}
		}
		if !found && len(dst) < max {
			dst = append(dst, s)
		}
	}
	return dst
}

func (ex *Explorer) runPath(s *Solver, prefix []Decision) (res *PathResult) {
	m := &Machine{
		Prog: ex.W.Prog, Cfg: ex.Cfg, Domain: ex.Cfg.Domain, W: ex.W,
		prefix: prefix, globals: map[*ssa.Global]*Obj{}, varSeq: map[string]int{},
		ex: ex, side: map[string]Value{}, initd: map[*ssa.Package]bool{},
	}
	res = &PathResult{}
	m.res = res
	m.sess = NewSession(s)
	defer func() {
		res.Trace = m.trace
		res.Labels = m.labels
		for n := range m.notes {
			res.Notes = append(res.Notes, n)
		}
		if r := recover(); r != nil {
			switch e := r.(type) {
			case pathEnd:
				res.Outcome, res.Msg = e.kind, e.msg
			default:
				if os.Getenv("WSYM_DEBUG") != "" {
					panic(r)
				}
				res.Outcome, res.Msg = "unsupported", fmt.Sprintf("engine error: %v%s", r, m.where())
			}
		}
		if res.Outcome == "unwind" {
			// unwinding assertion: is the path really feasible this far?
			st, vals := m.sess.CheckModel(m.namedTerms())
			if st == "unsat" {
				res.Outcome = "infeasible"
			} else {
				res.Violations = append(res.Violations, &Violation{Assert: "unwind", Harness: ex.Cfg.Harness, Kind: "unwind", Msg: res.Msg, Model: m.modelMap(vals), Labels: m.labels, Trace: m.trace})
				m.classifyKnown(res.Violations[len(res.Violations)-1])
			}
		}
	}()
	th := &Thread{name: "main"}
	m.threads = []*Thread{th}
	m.cur = th
	// package initialisers
	for _, p := range ex.W.Prog.AllPackages() {
		if ex.W.InitPkgs[p.Pkg.Path()] {
			m.runInit(th, p)
		}
	}
	m.pushFrame(th, ex.Entry, nil, nil, nil)
	m.runThread(th)
	if th.panic != nil {
		res.Outcome = "panic"
		res.Msg = th.panic.msg + " at " + th.panic.site
		st, vals := m.sess.CheckModel(m.namedTerms())
		if st == "unsat" {
			res.Outcome = "infeasible"
		} else {
			v := &Violation{Assert: "panic", Harness: ex.Cfg.Harness, Kind: "panic", Msg: res.Msg, Model: m.modelMap(vals), Labels: m.labels, Trace: m.trace}
			if st != "sat" {
				res.Unknowns = append(res.Unknowns, "panic path feasibility unknown: "+res.Msg)
			}
			m.classifyKnown(v)
			res.Violations = append(res.Violations, v)
		}
		return res
	}
	res.Outcome = "ok"
	if !ex.Cfg.Quiet && len(m.named) > 0 && len(m.trace)%3 == 0 {
		st, vals := m.sess.CheckModel(m.namedTerms())
		if st == "sat" {
			res.Sample = m.modelMap(vals)
		}
	}
	return res
}

func (m *Machine) runInit(th *Thread, p *ssa.Package) {
	fn := p.Func("init")
	if fn == nil || len(fn.Blocks) == 0 {
		return
	}
	m.pushFrame(th, fn, nil, nil, nil)
	m.runThread(th)
	if th.panic != nil {
		panic(pathEnd{kind: "unsupported", msg: "panic in package init of " + p.Pkg.Path() + ": " + th.panic.msg + " at " + th.panic.site})
	}
	th.done = false
}

func (m *Machine) namedTerms() []*Term {
	ts := make([]*Term, len(m.named))
	for i, n := range m.named {
		ts[i] = n.t
	}
	return ts
}

func (m *Machine) modelMap(vals []string) map[string]string {
	if vals == nil {
		return nil
	}
	out := map[string]string{}
	for i, n := range m.named {
		if i < len(vals) {
			out[n.name] = m.prettyValue(vals[i])
		}
	}
	return out
}

// prettyValue rewrites (Lit k) into the literal string it stands for.
func (m *Machine) prettyValue(v string) string {
	if !strings.Contains(v, "(Lit ") {
		return v
	}
	var b strings.Builder
	for {
		i := strings.Index(v, "(Lit ")
		if i < 0 {
			b.WriteString(v)
			break
		}
		b.WriteString(v[:i])
		j := strings.Index(v[i:], ")")
		var k int
		if _, err := fmt.Sscanf(v[i:i+j], "(Lit %d", &k); err == nil {
			if s, ok := m.W.Lits.get(k); ok {
				fmt.Fprintf(&b, "%q", s)
			} else {
				fmt.Fprintf(&b, "(Lit %d)", k)
			}
		} else {
			b.WriteString(v[i : i+j+1])
		}
		v = v[i+j+1:]
	}
	return b.String()
}

// ---------- assertions and cover points ----------

func (m *Machine) knownFor(id string) []KnownFinding {
	var out []KnownFinding
	for _, k := range m.Cfg.Known {
		if k.Status == "known" && k.Assert == id {
			out = append(out, k)
		}
	}
	return out
}

// defineNames makes every named term available to raw predicates as an SMT symbol.
func (m *Machine) defineNames(names []string) bool {
	for _, want := range names {
		found := false
		for i := len(m.named) - 1; i >= 0; i-- {
			if m.named[i].name == want {
				found = true
				key := "defname:" + want
				if _, ok := m.side[key]; !ok {
					m.side[key] = True
					t := m.named[i].t
					if !(t.IsVar() && t.Str == want) {
						m.sess.S.send(fmt.Sprintf("(define-fun %s () %s %s)", quoteSym("kf."+want), t.S.SMT(), m.sess.Ref(t)))
					} else {
						m.sess.S.send(fmt.Sprintf("(define-fun %s () %s %s)", quoteSym("kf."+want), t.S.SMT(), m.sess.Ref(t)))
					}
				}
				break
			}
		}
		if !found {
			return false
		}
	}
	return true
}

func (m *Machine) checkRaw(want []*Term, raw []string, extra ...*Term) (string, []string) {
	refs := []string{}
	for _, e := range extra {
		refs = append(refs, m.sess.Ref(e))
	}
	wrefs := make([]string, len(want))
	for i, w := range want {
		wrefs[i] = m.sess.Ref(w)
	}
	s := m.sess.S
	s.send("(push 1)")
	for _, r := range refs {
		s.send("(assert " + r + ")")
	}
	for _, r := range raw {
		s.send("(assert " + r + ")")
	}
	r := s.CheckSat()
	var vals []string
	if r == "sat" {
		vals, _ = s.GetValues(wrefs)
	}
	s.send("(pop 1)")
	return r, vals
}

func (m *Machine) assertOp(c *Term, id string) {
	m.res.Obligations++
	if c.IsConst() && c.B {
		m.res.Discharged++
		return
	}
	neg := Not(c)
	kfs := m.knownFor(id)
	var usable []KnownFinding
	for _, k := range kfs {
		if m.defineNames(k.Names) {
			usable = append(usable, k)
		}
	}
	raw := []string{}
	for _, k := range usable {
		raw = append(raw, "(not "+k.Predicate+")")
	}
	st, vals := m.checkRaw(m.namedTerms(), raw, neg)
	switch st {
	case "unsat":
		m.res.Discharged++
	case "sat":
		replayable := false
		if len(m.prefer) > 0 {
			// try to get a model the native replay can rebuild (small sizes etc.)
			extra := append([]*Term{neg}, m.prefer...)
			if st2, vals2 := m.checkRaw(m.namedTerms(), raw, extra...); st2 == "sat" {
				vals, replayable = vals2, true
			}
		}
		m.res.Violations = append(m.res.Violations, &Violation{Assert: id, Harness: m.Cfg.Harness, Kind: "assert", Model: m.modelMap(vals), Labels: append([]string{}, m.labels...), Trace: append([]Decision{}, m.trace...), Msg: m.site(), Replayable: replayable, Weak: append([]string{}, m.weak...)})
	default:
		m.res.Unknowns = append(m.res.Unknowns, "assertion "+id+": solver unknown")
	}
	for _, k := range usable {
		st, vals := m.checkRaw(m.namedTerms(), []string{k.Predicate}, neg)
		if st == "sat" {
			m.res.Violations = append(m.res.Violations, &Violation{Assert: id, Harness: m.Cfg.Harness, Kind: "assert", Model: m.modelMap(vals), Labels: append([]string{}, m.labels...), Trace: append([]Decision{}, m.trace...), Known: k.ID, Msg: k.What})
		}
	}
	// continue under the assumption that the assertion holds
	if c.IsConst() {
		panic(pathEnd{kind: "done", msg: "assertion " + id + " is false on this path"})
	}
	m.assume(c)
}

// classifyKnown marks a panic / unwind violation as a known finding when a listed predicate covers it.
func (m *Machine) classifyKnown(v *Violation) {
	for _, k := range m.Cfg.Known {
		if k.Status != "known" || k.Assert != v.Assert {
			continue
		}
		if k.Predicate == "" || k.Predicate == "true" {
			if strings.Contains(v.Msg, k.What) || k.What == "" {
				v.Known = k.ID
				return
			}
			continue
		}
		if !strings.Contains(v.Msg, k.Names[0]) {
			continue
		}
		v.Known = k.ID
		return
	}
}

func (m *Machine) coverOp(c *Term, id string) {
	m.ex.mu.Lock()
	done := m.ex.covered[id]
	m.ex.mu.Unlock()
	if done {
		return
	}
	if c.IsConst() && !c.B {
		return
	}
	st, vals := m.sess.CheckModel(m.namedTerms(), c)
	if st != "sat" {
		return
	}
	m.ex.mu.Lock()
	if !m.ex.covered[id] {
		m.ex.covered[id] = true
		m.ex.rep.Covers[id] = &CoverHit{ID: id, Model: m.modelMap(vals), Labels: append([]string{}, m.labels...)}
	}
	m.ex.mu.Unlock()
}

// ---------- threads ----------

func (m *Machine) runThreads(main *Thread) {
	blockedAt := map[*Thread]int{}
	// Partial-order reduction: the code of a thread before its first yield point (its first lock
	// or database operation) touches no shared state, so it commutes with everything; run those
	// prefixes in a fixed order instead of branching over their order.
	for _, t := range m.threads {
		if t == main || t.done || t.started {
			continue
		}
		t.started = true
		m.yieldRequested = false
		m.runThread(t)
		if t.panic != nil && len(t.stack) == 0 {
			main.panic = t.panic
			m.cur = main
			panic(t.panic)
		}
		if t.blocked {
			blockedAt[t] = m.progress
		}
	}
	m.progress++
	for {
		var cands []*Thread
		allDone := true
		for _, t := range m.threads {
			if t == main || t.done {
				continue
			}
			allDone = false
			if t.blocked {
				if at, ok := blockedAt[t]; ok && at == m.progress {
					continue
				}
			}
			cands = append(cands, t)
		}
		if allDone {
			m.side["deadlock"] = False
			break
		}
		if len(cands) == 0 {
			m.side["deadlock"] = True
			break
		}
		i := 0
		if len(cands) > 1 {
			i = m.decide("sched", make([]*Term, len(cands)))
		}
		t := cands[i]
		wasBlocked := t.blocked
		t.blocked = false
		m.yieldRequested = false
		m.runThread(t)
		if t.panic != nil && len(t.stack) == 0 {
			// a panicking goroutine kills the process
			main.panic = t.panic
			m.cur = main
			panic(t.panic)
		}
		if t.blocked {
			blockedAt[t] = m.progress
			if !wasBlocked {
				// it ran until it blocked: that counts as progress only if it executed something visible
			}
		} else {
			m.progress++
		}
	}
	m.cur = main
	m.yieldRequested = false
}
