package sym

import (
	"bufio"
	"fmt"
	"io"
	"os"
	"os/exec"
	"strings"
	"time"
)

// Prelude is sent after every (reset).
const preludeADT = `
(define-fun sbv2int ((x (_ BitVec 64))) Int (ite (bvslt x #x0000000000000000) (- (bv2nat x) 18446744073709551616) (bv2nat x)))
(declare-datatypes ((Bytes 0) (BList 0)) (
  ((Lit (lit Int)) (Cons (ctag Int) (cargs BList)) (OfU64 (ofu (_ BitVec 64))))
  ((BNil) (BCons (bhd Bytes) (btl BList)))))
`

// SolverKind selects the back end.
type SolverKind string

const (
	Z3    SolverKind = "z3"
	Z3New SolverKind = "z3-new"
	CVC5  SolverKind = "cvc5"
)

// Solver is one long-lived solver process.
type Solver struct {
	Kind      SolverKind
	cmd       *exec.Cmd
	in        io.WriteCloser
	out       *bufio.Reader
	TimeoutMs int
	Queries   int
	Unknown   int
	Time      time.Duration
	log       io.Writer
	dead      bool
}

func NewSolver(kind SolverKind, timeoutMs int) (*Solver, error) {
	var cmd *exec.Cmd
	switch kind {
	case Z3:
		cmd = exec.Command("z3", "-in", "-smt2")
	case Z3New:
		cmd = exec.Command("z3-new", "-in", "-smt2")
	case CVC5:
		cmd = exec.Command("cvc5", "--incremental", "--strings-exp", "--lang=smt2", "--produce-models",
			fmt.Sprintf("--tlimit-per=%d", timeoutMs))
	default:
		return nil, fmt.Errorf("unknown solver %q", kind)
	}
	in, err := cmd.StdinPipe()
	if err != nil {
		return nil, err
	}
	out, err := cmd.StdoutPipe()
	if err != nil {
		return nil, err
	}
	cmd.Stderr = os.Stderr
	if err := cmd.Start(); err != nil {
		return nil, err
	}
	s := &Solver{Kind: kind, cmd: cmd, in: in, out: bufio.NewReaderSize(out, 1<<16), TimeoutMs: timeoutMs}
	if p := os.Getenv("WSYM_SMTLOG"); p != "" {
		f, _ := os.OpenFile(fmt.Sprintf("%s.%d", p, cmd.Process.Pid), os.O_CREATE|os.O_WRONLY|os.O_TRUNC, 0o644)
		s.log = f
	}
	return s, nil
}

func (s *Solver) Close() {
	if s.cmd != nil {
		s.in.Close()
		s.cmd.Process.Kill()
		s.cmd.Wait()
	}
}

func (s *Solver) send(line string) {
	if s.log != nil {
		io.WriteString(s.log, line+"\n")
	}
	if _, err := io.WriteString(s.in, line+"\n"); err != nil {
		s.dead = true
	}
}

// readSexp reads one complete s-expression (or atom line) from the solver.
func (s *Solver) readSexp() (string, error) {
	var b strings.Builder
	depth := 0
	started := false
	inStr := false
	for {
		c, err := s.out.ReadByte()
		if err != nil {
			s.dead = true
			return b.String(), err
		}
		if inStr {
			b.WriteByte(c)
			if c == '"' {
				inStr = false
			}
			continue
		}
		switch c {
		case '"':
			inStr = true
			started = true
			b.WriteByte(c)
		case '(':
			depth++
			started = true
			b.WriteByte(c)
		case ')':
			depth--
			b.WriteByte(c)
			if depth == 0 {
				return b.String(), nil
			}
		case '\n', '\r', ' ', '\t':
			if started && depth == 0 {
				return b.String(), nil
			}
			if started {
				b.WriteByte(' ')
			}
		default:
			started = true
			b.WriteByte(c)
		}
	}
}

// Reset clears the solver state and re-sends the prelude.
func (s *Solver) Reset() {
	switch s.Kind {
	case CVC5:
		s.send("(reset)")
		s.send("(set-logic ALL)")
		s.send("(set-option :produce-models true)")
	default:
		s.send("(reset)")
		s.send(fmt.Sprintf("(set-option :timeout %d)", s.TimeoutMs))
	}
	s.send(preludeADT)
}

// CheckSat runs (check-sat) and returns "sat", "unsat" or "unknown".
// guard kills the solver process if it does not answer in time.
func (s *Solver) guard() func() {
	if s.dead {
		return func() {}
	}
	t := time.AfterFunc(time.Duration(s.TimeoutMs)*time.Millisecond+15*time.Second, func() {
		s.dead = true
		s.cmd.Process.Kill()
	})
	return func() { t.Stop() }
}

// Dead reports whether the process has been killed or has exited.
func (s *Solver) Dead() bool { return s.dead }

func (s *Solver) CheckSat() string {
	if s.dead {
		s.Unknown++
		return "unknown"
	}
	t0 := time.Now()
	s.send("(check-sat)")
	stop := s.guard()
	r, err := s.readSexp()
	stop()
	s.Time += time.Since(t0)
	s.Queries++
	if s.log != nil {
		fmt.Fprintf(s.log, "; -> %s in %d ms\n", strings.TrimSpace(r), time.Since(t0).Milliseconds())
	}
	if err != nil {
		s.Unknown++
		return "unknown"
	}
	r = strings.TrimSpace(r)
	for strings.HasPrefix(r, "(error") {
		// an error line: inconclusive; drain and report unknown.
		fmt.Fprintf(os.Stderr, "solver error: %s\n", r)
		s.Unknown++
		return "unknown"
	}
	if r != "sat" && r != "unsat" {
		s.Unknown++
		return "unknown"
	}
	return r
}

// GetValues returns the solver's values for the given expressions (after sat).
func (s *Solver) GetValues(exprs []string) ([]string, error) {
	if len(exprs) == 0 {
		return nil, nil
	}
	if s.dead {
		return nil, fmt.Errorf("solver dead")
	}
	s.send("(get-value (" + strings.Join(exprs, " ") + "))")
	stop := s.guard()
	r, err := s.readSexp()
	stop()
	if err != nil {
		return nil, err
	}
	if strings.HasPrefix(r, "(error") {
		return nil, fmt.Errorf("get-value: %s", r)
	}
	sx, err := ParseSexp(r)
	if err != nil {
		return nil, err
	}
	if len(sx.L) != len(exprs) {
		return nil, fmt.Errorf("get-value: got %d pairs for %d exprs: %s", len(sx.L), len(exprs), r)
	}
	out := make([]string, len(exprs))
	for i, p := range sx.L {
		if len(p.L) != 2 {
			return nil, fmt.Errorf("get-value: bad pair %s", p.String())
		}
		out[i] = p.L[1].String()
	}
	return out, nil
}

// ---------- s-expressions ----------

type Sexp struct {
	A string
	L []*Sexp
	// IsList distinguishes "()" from an atom.
	IsList bool
}

func (s *Sexp) String() string {
	if !s.IsList {
		return s.A
	}
	parts := make([]string, len(s.L))
	for i, x := range s.L {
		parts[i] = x.String()
	}
	return "(" + strings.Join(parts, " ") + ")"
}

func ParseSexp(src string) (*Sexp, error) {
	p := &sexpParser{s: src}
	x, err := p.parse()
	if err != nil {
		return nil, err
	}
	return x, nil
}

type sexpParser struct {
	s string
	i int
}

func (p *sexpParser) ws() {
	for p.i < len(p.s) && (p.s[p.i] == ' ' || p.s[p.i] == '\n' || p.s[p.i] == '\t' || p.s[p.i] == '\r') {
		p.i++
	}
}

func (p *sexpParser) parse() (*Sexp, error) {
	p.ws()
	if p.i >= len(p.s) {
		return nil, fmt.Errorf("sexp: unexpected end")
	}
	if p.s[p.i] == '(' {
		p.i++
		x := &Sexp{IsList: true}
		for {
			p.ws()
			if p.i >= len(p.s) {
				return nil, fmt.Errorf("sexp: unterminated list")
			}
			if p.s[p.i] == ')' {
				p.i++
				return x, nil
			}
			c, err := p.parse()
			if err != nil {
				return nil, err
			}
			x.L = append(x.L, c)
		}
	}
	start := p.i
	if p.s[p.i] == '"' {
		p.i++
		for p.i < len(p.s) {
			if p.s[p.i] == '"' {
				if p.i+1 < len(p.s) && p.s[p.i+1] == '"' {
					p.i += 2
					continue
				}
				p.i++
				break
			}
			p.i++
		}
		return &Sexp{A: p.s[start:p.i]}, nil
	}
	if p.s[p.i] == '|' {
		p.i++
		for p.i < len(p.s) && p.s[p.i] != '|' {
			p.i++
		}
		p.i++
		return &Sexp{A: p.s[start:p.i]}, nil
	}
	for p.i < len(p.s) && !strings.ContainsRune(" \n\t\r()", rune(p.s[p.i])) {
		p.i++
	}
	return &Sexp{A: p.s[start:p.i]}, nil
}

// ---------- session: incremental definition of terms ----------

// Session tracks which terms/vars have been defined in the current solver scope.
type Session struct {
	S       *Solver
	defined map[*Term]string
	vars    map[string]Sort
	funs    map[string]string // UF name -> signature text
	next    int
}

func NewSession(s *Solver) *Session {
	s.Reset()
	return &Session{S: s, defined: map[*Term]string{}, vars: map[string]Sort{}, funs: map[string]string{}}
}

func quoteSym(name string) string {
	for _, c := range name {
		if !(c >= 'a' && c <= 'z' || c >= 'A' && c <= 'Z' || c >= '0' && c <= '9' || c == '_' || c == '.' || c == '!' || c == '$') {
			return "|" + strings.ReplaceAll(name, "|", "!") + "|"
		}
	}
	return name
}

var builtinOps = map[string]bool{
	"not": true, "and": true, "or": true, "ite": true, "=": true, "distinct": true,
	"bvadd": true, "bvsub": true, "bvmul": true, "bvand": true, "bvor": true, "bvxor": true,
	"bvudiv": true, "bvurem": true, "bvsdiv": true, "bvsrem": true, "bvshl": true, "bvlshr": true, "bvashr": true,
	"bvult": true, "bvule": true, "bvugt": true, "bvuge": true, "bvslt": true, "bvsle": true, "bvsgt": true, "bvsge": true,
	"bvneg": true, "bvnot": true, "extract": true, "ext": true, "concat": true,
	"Lit": true, "Cons": true, "OfU64": true, "BNil": true, "BCons": true,
	"lit": true, "ctag": true, "cargs": true, "ofu": true, "bhd": true, "btl": true,
	"is-Lit": true, "is-Cons": true, "is-OfU64": true,
	"str.++": true, "str.len": true, "str.at": true, "str.substr": true, "str.prefixof": true, "str.suffixof": true,
	"str.contains": true, "str.indexof": true, "str.replace": true, "str.from_int": true, "str.to_int": true,
	"str.in_re": true, "str.to_code": true, "str.from_code": true, "str.<": true, "str.<=": true, "str.replace_all": true,
	"+": true, "-": true, "*": true, "<": true, "<=": true, ">": true, ">=": true, "div": true, "mod": true,
	"bv2nat": true, "int2bv": true, "sbv2int": true,
	"re.*": true, "re.+": true, "re.++": true, "re.range": true, "str.to_re": true, "re.union": true, "re.opt": true, "re.allchar": true, "re.all": true, "re.comp": true, "re.diff": true, "re.none": true,
}

// Ref returns SMT text denoting t, emitting any definitions it needs first.
func (ss *Session) Ref(t *Term) string {
	switch t.Op {
	case "c":
		return t.constSMT()
	case "v":
		q := quoteSym(t.Str)
		if s, ok := ss.vars[t.Str]; !ok {
			ss.vars[t.Str] = t.S
			ss.S.send(fmt.Sprintf("(declare-const %s %s)", q, t.S.SMT()))
		} else if s != t.S {
			panic(fmt.Sprintf("variable %s declared with two sorts", t.Str))
		}
		return q
	}
	if n, ok := ss.defined[t]; ok {
		return n
	}
	// iterative post-order to avoid deep recursion on long chains
	args := make([]string, len(t.Args))
	for i, a := range t.Args {
		args[i] = ss.Ref(a)
	}
	var body string
	head := t.Op
	switch t.Op {
	case "extract", "ext":
		head = t.Str
	case "BNil":
		head = "BNil"
	case "int2bv":
		head = t.Str
	default:
		if !builtinOps[t.Op] {
			// uninterpreted function: declare on first use with this signature
			sig := make([]string, len(t.Args))
			for i, a := range t.Args {
				sig[i] = a.S.SMT()
			}
			full := "(" + strings.Join(sig, " ") + ") " + t.S.SMT()
			if old, ok := ss.funs[t.Op]; !ok {
				ss.funs[t.Op] = full
				ss.S.send(fmt.Sprintf("(declare-fun %s %s)", quoteSym(t.Op), full))
			} else if old != full {
				panic(fmt.Sprintf("UF %s used with two signatures: %s vs %s", t.Op, old, full))
			}
			head = quoteSym(t.Op)
		}
	}
	if len(args) == 0 {
		body = head
	} else {
		body = "(" + head + " " + strings.Join(args, " ") + ")"
	}
	if t.depth <= 1 && len(body) < 60 {
		ss.defined[t] = body
		return body
	}
	ss.next++
	n := fmt.Sprintf("t!%d", ss.next)
	ss.S.send(fmt.Sprintf("(define-fun %s () %s %s)", n, t.S.SMT(), body))
	ss.defined[t] = n
	return n
}

func (ss *Session) Assert(t *Term) {
	if t.IsConst() && t.B {
		return
	}
	ss.S.send("(assert " + ss.Ref(t) + ")")
}

// Check asks whether the current assertions plus extra are satisfiable.
func (ss *Session) Check(extra ...*Term) string {
	refs := make([]string, 0, len(extra))
	for _, e := range extra {
		if e.IsConst() {
			if !e.B {
				return "unsat"
			}
			continue
		}
		refs = append(refs, ss.Ref(e))
	}
	ss.S.send("(push 1)")
	for _, r := range refs {
		ss.S.send("(assert " + r + ")")
	}
	r := ss.S.CheckSat()
	ss.S.send("(pop 1)")
	return r
}

// CheckModel is Check plus, on sat, the values of the given terms.
func (ss *Session) CheckModel(want []*Term, extra ...*Term) (string, []string) {
	refs := make([]string, 0, len(extra))
	for _, e := range extra {
		if e.IsConst() {
			if !e.B {
				return "unsat", nil
			}
			continue
		}
		refs = append(refs, ss.Ref(e))
	}
	wrefs := make([]string, len(want))
	for i, w := range want {
		wrefs[i] = ss.Ref(w)
	}
	ss.S.send("(push 1)")
	for _, r := range refs {
		ss.S.send("(assert " + r + ")")
	}
	r := ss.S.CheckSat()
	var vals []string
	if r == "sat" {
		v, err := ss.S.GetValues(wrefs)
		if err != nil {
			fmt.Fprintf(os.Stderr, "get-value failed: %v\n", err)
		} else {
			vals = v
		}
	}
	ss.S.send("(pop 1)")
	return r, vals
}

// EnumValues enumerates up to max distinct feasible values of a bit-vector term.
// complete is true when the enumeration ended with unsat.
func (ss *Session) EnumValues(t *Term, max int) (vals []uint64, complete bool) {
	ref := ss.Ref(t)
	ss.S.send("(push 1)")
	defer ss.S.send("(pop 1)")
	for len(vals) <= max {
		r := ss.S.CheckSat()
		if r == "unsat" {
			return vals, true
		}
		if r != "sat" {
			return vals, false
		}
		vs, err := ss.S.GetValues([]string{ref})
		if err != nil || len(vs) != 1 {
			return vals, false
		}
		v, ok := parseBVValue(vs[0])
		if !ok {
			return vals, false
		}
		vals = append(vals, v)
		ss.S.send(fmt.Sprintf("(assert (not (= %s %s)))", ref, BVC(t.S.W, v).constSMT()))
	}
	return vals, false
}
