package sym

import (
	"fmt"
	"go/constant"
	"go/token"
	"go/types"
	"strings"

	"golang.org/x/tools/go/ssa"
)

// Domain selects the representation of strings / []byte for fresh values and literals.
type Domain int

const (
	DomAlgebra Domain = iota // ideal algebra (ADT Bytes)
	DomString                // SMT-LIB strings
	DomArray                 // []byte as real slices of 8-bit cells; strings as SMT strings
)

// pathEnd is thrown (as a Go panic) to abandon the current path.
type pathEnd struct {
	kind string // "infeasible", "unsupported", "unwind", "budget", "done"
	msg  string
}

// goPanicV is thrown for a Go-level run-time panic inside interpreted code.
type goPanicV struct {
	msg  string
	site string
	val  Value
}

type deferred struct {
	fn   Value
	args []Value
	// invoke mode
	method *types.Func
}

type Frame struct {
	fn     *ssa.Function
	env    map[ssa.Value]Value
	block  *ssa.BasicBlock
	prev   *ssa.BasicBlock
	ip     int
	defers []*deferred
	retTo  ssa.Value
	visits map[int]int
	onExit func(normal bool, res Value)
	// crashBoundary frames stop a Crash unwinding.
	crashBoundary bool
}

type Thread struct {
	id       int
	stack    []*Frame
	panic    *goPanicV
	saved    []*goPanicV
	crashing bool
	done     bool
	blocked  bool
	started  bool
	result   Value
	name     string
}

type Machine struct {
	Prog   *ssa.Program
	Cfg    *RunConfig
	Domain Domain
	W      *World // shared, read-mostly program-level tables

	sess   *Session
	pc     []*Term
	prefix []Decision
	pos    int
	trace  []Decision
	labels []string // human-readable decision labels, parallel to trace

	globals map[*ssa.Global]*Obj
	threads []*Thread
	cur     *Thread
	objSeq  int
	varSeq  map[string]int
	named   []namedTerm
	steps   int

	res   *PathResult
	ex    *Explorer
	notes map[string]bool

	prefer         []*Term  // soft constraints tried first when extracting violation models (replayability)
	weak           []string // uninterpreted stand-ins used on this path whose violations need native confirmation
	cfree          map[*Term]string
	klen           map[*Term]int
	yieldRequested bool
	progress       int
	side           map[string]Value
	initd          map[*ssa.Package]bool
}

type namedTerm struct {
	name string
	t    *Term
}

func (m *Machine) unsupported(format string, args ...interface{}) pathEnd {
	return pathEnd{kind: "unsupported", msg: fmt.Sprintf(format, args...) + m.where()}
}

func (m *Machine) goPanic(format string, args ...interface{}) *goPanicV {
	return &goPanicV{msg: fmt.Sprintf(format, args...), site: m.site()}
}

func (m *Machine) site() string {
	if m.cur == nil || len(m.cur.stack) == 0 {
		return "?"
	}
	// innermost frame that belongs to non-model code
	for i := len(m.cur.stack) - 1; i >= 0; i-- {
		f := m.cur.stack[i]
		if f.block == nil {
			continue
		}
		ip := f.ip - 1
		if ip < 0 {
			ip = 0
		}
		if ip < len(f.block.Instrs) {
			pos := f.block.Instrs[ip].Pos()
			if !pos.IsValid() {
				// search backwards for a positioned instruction
				for j := ip; j >= 0 && !pos.IsValid(); j-- {
					pos = f.block.Instrs[j].Pos()
				}
			}
			if pos.IsValid() {
				p := m.Prog.Fset.Position(pos)
				return fmt.Sprintf("%s (%s:%d)", f.fn.String(), shortFile(p.Filename), p.Line)
			}
		}
		return f.fn.String()
	}
	return "?"
}

func shortFile(f string) string {
	if i := strings.Index(f, "/repo/"); i >= 0 {
		return f[i+6:]
	}
	if i := strings.Index(f, "/pkg/mod/"); i >= 0 {
		return f[i+9:]
	}
	return f
}

func (m *Machine) where() string {
	return " at " + m.site()
}

// ---------- path condition and decisions ----------

func (m *Machine) assume(c *Term) {
	if c.IsConst() {
		if !c.B {
			panic(pathEnd{kind: "infeasible", msg: "assume false"})
		}
		return
	}
	m.pc = append(m.pc, c)
	m.sess.Assert(c)
}

// decide picks one of the alternatives; conds[i] may be nil (unconstrained).
// The chosen alternative's condition is added to the path condition.
func (m *Machine) decide(label string, conds []*Term) int {
	var choice int
	if m.pos < len(m.prefix) {
		choice = m.prefix[m.pos].C
		m.pos++
	} else {
		feasible := []int{}
		for i, c := range conds {
			if c == nil {
				feasible = append(feasible, i)
				continue
			}
			if c.IsConst() {
				if c.B {
					feasible = append(feasible, i)
				}
				continue
			}
			switch m.sess.Check(c) {
			case "sat":
				feasible = append(feasible, i)
			case "unknown":
				// sound over-approximation: an undecided alternative is explored as if feasible
				m.note("branch feasibility undecided (explored as feasible): " + label + m.where())
				feasible = append(feasible, i)
			}
		}
		if len(feasible) == 0 {
			panic(pathEnd{kind: "infeasible", msg: "no feasible alternative at " + label})
		}
		choice = feasible[0]
		for _, alt := range feasible[1:] {
			np := make([]Decision, len(m.trace)+1)
			copy(np, m.trace)
			np[len(m.trace)] = Decision{C: alt}
			m.ex.push(np)
		}
		m.pos++
	}
	m.trace = append(m.trace, Decision{C: choice})
	if len(m.labels) < 400 {
		m.labels = append(m.labels, fmt.Sprintf("%s=%d", label, choice))
	}
	if choice < 0 || choice >= len(conds) {
		panic(pathEnd{kind: "unsupported", msg: fmt.Sprintf("replay divergence at %s: choice %d of %d", label, choice, len(conds))})
	}
	if c := conds[choice]; c != nil {
		m.assume(c)
	}
	return choice
}

// branch decides a symbolic boolean.
func (m *Machine) branch(label string, c *Term) bool {
	if c.IsConst() {
		return c.B
	}
	return m.decide(label, []*Term{c, Not(c)}) == 0
}

// concretize enumerates the feasible values of a bit-vector term by forking.
func (m *Machine) concretize(label string, t *Term) uint64 {
	if t.IsConst() {
		return t.U
	}
	var v uint64
	if m.pos < len(m.prefix) {
		v = m.prefix[m.pos].V
		m.pos++
	} else {
		vals, complete := m.sess.EnumValues(t, m.Cfg.MaxConcretize)
		if len(vals) == 0 {
			if complete {
				panic(pathEnd{kind: "infeasible", msg: "concretize: no value"})
			}
			panic(pathEnd{kind: "unsupported", msg: "concretize: solver gave no answer at " + label + m.where()})
		}
		if !complete {
			panic(pathEnd{kind: "unsupported", msg: fmt.Sprintf("concretize: more than %d values at %s%s", m.Cfg.MaxConcretize, label, m.where())})
		}
		v = vals[0]
		for _, alt := range vals[1:] {
			np := make([]Decision, len(m.trace)+1)
			copy(np, m.trace)
			np[len(m.trace)] = Decision{V: alt}
			m.ex.push(np)
		}
		m.pos++
	}
	m.trace = append(m.trace, Decision{V: v})
	if len(m.labels) < 400 {
		m.labels = append(m.labels, fmt.Sprintf("%s:=%d", label, v))
	}
	m.assume(Eq(t, BVC(t.S.W, v)))
	return v
}

func parseBVValue(s string) (uint64, bool) {
	s = strings.TrimSpace(s)
	var v uint64
	if strings.HasPrefix(s, "#x") {
		_, err := fmt.Sscanf(s[2:], "%x", &v)
		return v, err == nil
	}
	if strings.HasPrefix(s, "#b") {
		_, err := fmt.Sscanf(s[2:], "%b", &v)
		return v, err == nil
	}
	if strings.HasPrefix(s, "(_ bv") {
		_, err := fmt.Sscanf(s, "(_ bv%d", &v)
		return v, err == nil
	}
	return 0, false
}

func (m *Machine) concInt(label string, v Value) int {
	t, ok := v.(*Term)
	if !ok {
		panic(m.unsupported("expected integer term, got %T", v))
	}
	if t.IsConst() {
		return int(sext(t.S.W, t.U))
	}
	u := m.concretize(label, t)
	return int(sext(t.S.W, u))
}

// ---------- evaluation of operands ----------

func (m *Machine) get(f *Frame, v ssa.Value) Value {
	switch x := v.(type) {
	case *ssa.Const:
		return m.constValue(x)
	case *ssa.Global:
		return Ptr{O: m.global(x)}
	case *ssa.Function:
		return &FuncV{Fn: x}
	case *ssa.Builtin:
		return &FuncV{Bltin: x}
	}
	if r, ok := f.env[v]; ok {
		if lz, isLazy := r.(*LazyV); isLazy {
			r = m.force(lz)
			f.env[v] = r
		}
		return r
	}
	panic(m.unsupported("no value for %s (%T) in %s", v.Name(), v, f.fn))
}

// getRaw is get without forcing a lazy value (used where a value is only moved, not looked at).
func (m *Machine) getRaw(f *Frame, v ssa.Value) Value {
	if r, ok := f.env[v]; ok {
		if _, isLazy := r.(*LazyV); isLazy {
			return r
		}
	}
	return m.get(f, v)
}

// force evaluates a lazy value (verifrt.Lazy*): the thunk runs to completion on the current
// thread, nested inside the instruction that first looks at the value; it may fork like any code.
func (m *Machine) force(lz *LazyV) Value {
	if lz.forced {
		return lz.V
	}
	th := m.cur
	if th == nil {
		panic(m.unsupported("lazy value forced outside a thread"))
	}
	base := len(th.stack)
	var res Value
	fr := m.pushFrame(th, lz.Fn.Fn, nil, lz.Fn.FV, nil)
	fr.onExit = func(normal bool, r Value) { res = r }
	for len(th.stack) > base {
		if th.panic != nil || th.crashing {
			panic(m.unsupported("panic or crash inside a lazy contract value"))
		}
		m.steps++
		m.stepGuard(th, th.stack[len(th.stack)-1])
	}
	if th.panic != nil {
		panic(m.unsupported("panic inside a lazy contract value"))
	}
	lz.forced, lz.V = true, res
	return res
}

func (m *Machine) constValue(c *ssa.Const) Value {
	t := c.Type()
	if c.Value == nil {
		return m.zero(t)
	}
	switch u := t.Underlying().(type) {
	case *types.Basic:
		switch {
		case u.Info()&types.IsBoolean != 0:
			return BoolC(constant.BoolVal(c.Value))
		case u.Info()&types.IsInteger != 0:
			w, _, _ := intWidth(u)
			if w == 0 {
				w = 64
			}
			if i, ok := constant.Int64Val(constant.ToInt(c.Value)); ok {
				return BVC(w, uint64(i))
			}
			uu, _ := constant.Uint64Val(constant.ToInt(c.Value))
			return BVC(w, uu)
		case u.Info()&types.IsString != 0:
			return m.strLit(constant.StringVal(c.Value))
		case u.Info()&types.IsFloat != 0:
			f, _ := constant.Float64Val(c.Value)
			return &Term{Op: "c", S: SBV(64), U: floatBits(f)}
		}
	}
	panic(m.unsupported("constant of type %s", t))
}

// ---------- globals and package init ----------

func (m *Machine) global(g *ssa.Global) *Obj {
	if o, ok := m.globals[g]; ok {
		return o
	}
	elem := g.Type().(*types.Pointer).Elem()
	o := m.newObj(m.zero(elem), g.String())
	m.globals[g] = o
	// error-typed sentinels of packages whose init we do not run
	if g.Pkg != nil && !m.W.InitPkgs[g.Pkg.Pkg.Path()] {
		if types.Identical(elem, m.W.ErrorType) {
			o.V = m.sentinel(g.String())
		}
	}
	return o
}

// sentinel builds a distinct non-nil error value named after a global.
func (m *Machine) sentinel(name string) Value {
	st := m.W.SentinelType // *verifrt.SentinelErr
	obj := m.newObj(&StructV{F: []Value{m.strLit(name)}}, name)
	return IfaceV{T: st, V: Ptr{O: obj}}
}

// ---------- calls ----------

func (m *Machine) pushFrame(th *Thread, fn *ssa.Function, args []Value, fv []Value, retTo ssa.Value) *Frame {
	if len(th.stack) > m.Cfg.MaxDepth {
		panic(pathEnd{kind: "unwind", msg: fmt.Sprintf("call depth > %d in %s", m.Cfg.MaxDepth, fn)})
	}
	if len(fn.Blocks) == 0 {
		panic(m.unsupported("call to function without body: %s", fn))
	}
	f := &Frame{fn: fn, env: make(map[ssa.Value]Value, 32), block: fn.Blocks[0], retTo: retTo, visits: map[int]int{}}
	if len(args) != len(fn.Params) {
		panic(m.unsupported("arity mismatch calling %s: %d args for %d params", fn, len(args), len(fn.Params)))
	}
	for i, p := range fn.Params {
		f.env[p] = args[i]
	}
	for i, v := range fn.FreeVars {
		f.env[v] = fv[i]
	}
	th.stack = append(th.stack, f)
	m.W.noteFn(fn)
	return f
}

// callValue invokes a function value; the result (if any) is bound to retTo in the calling frame.
func (m *Machine) callValue(th *Thread, caller *Frame, fnv Value, args []Value, retTo ssa.Value, site *ssa.CallCommon) {
	fv, ok := fnv.(*FuncV)
	if !ok || fv == nil {
		panic(m.goPanic("call of nil function"))
	}
	if fv.Bltin != nil {
		r := m.builtin(caller, fv.Bltin, args, site)
		if retTo != nil {
			caller.env[retTo] = r
		}
		return
	}
	fn := fv.Fn
	name := fn.String()
	if fn.Origin() != nil {
		name = fn.Origin().String()
	}
	if fn.Synthetic == "package initializer" && (fn.Pkg == nil || !m.W.InitPkgs[fn.Pkg.Pkg.Path()]) {
		return
	}
	// model replacement?
	if rep, ok := m.W.Replace[name]; ok && !(caller != nil && caller.fn == rep) {
		m.W.noteStub(name)
		fn = rep
		m.pushFrame(th, fn, args, nil, retTo)
		return
	}
	if in, ok := intrinsics[name]; ok {
		m.W.noteStub(name)
		r := in(m, th, caller, args, retTo)
		if r != noResult && retTo != nil {
			caller.env[retTo] = r
		}
		return
	}
	if fn.Pkg != nil {
		if h, ok := pkgIntrinsics[fn.Pkg.Pkg.Path()]; ok {
			m.W.noteStub(fn.Pkg.Pkg.Path() + ".*")
			r := h(m, fn, args)
			if retTo != nil {
				caller.env[retTo] = r
			}
			return
		}
	}
	if len(fn.Blocks) == 0 {
		panic(m.unsupported("no contract for external function %s", name))
	}
	if m.W.Deny(fn) {
		panic(m.unsupported("function outside the encodable set: %s", name))
	}
	m.pushFrame(th, fn, args, fv.FV, retTo)
}

type noResultT struct{}

var noResult Value = noResultT{}

func (m *Machine) doCall(th *Thread, f *Frame, cc *ssa.CallCommon, retTo ssa.Value) {
	args := make([]Value, 0, len(cc.Args)+1)
	if cc.IsInvoke() {
		recv := m.get(f, cc.Value)
		iv, ok := recv.(IfaceV)
		if !ok {
			panic(m.unsupported("invoke on %T", recv))
		}
		if iv.T == nil {
			panic(m.goPanic("invoke %s on nil interface", cc.Method.Name()))
		}
		fn := m.lookupMethod(iv.T, cc.Method)
		args = append(args, iv.V)
		for _, a := range cc.Args {
			args = append(args, m.get(f, a))
		}
		m.callValue(th, f, &FuncV{Fn: fn}, args, retTo, cc)
		return
	}
	fnv := m.get(f, cc.Value)
	for _, a := range cc.Args {
		args = append(args, m.get(f, a))
	}
	m.callValue(th, f, fnv, args, retTo, cc)
}

func (m *Machine) lookupMethod(t types.Type, meth *types.Func) *ssa.Function {
	fn := m.Prog.LookupMethod(t, meth.Pkg(), meth.Name())
	if fn == nil {
		panic(m.unsupported("no method %s on %s", meth.Name(), t))
	}
	return fn
}

// ---------- main loop ----------

func (m *Machine) runThread(th *Thread) {
	m.cur = th
	for !th.done && !th.blocked {
		m.steps++
		if m.steps > m.Cfg.MaxSteps {
			panic(pathEnd{kind: "budget", msg: fmt.Sprintf("step budget %d exceeded", m.Cfg.MaxSteps)})
		}
		if th.crashing {
			m.crashUnwind(th)
			continue
		}
		if th.panic != nil {
			m.unwind(th)
			continue
		}
		if len(th.stack) == 0 {
			th.done = true
			break
		}
		f := th.stack[len(th.stack)-1]
		if m.yieldRequested {
			m.yieldRequested = false
			return
		}
		m.stepGuard(th, f)
	}
}

// stepGuard executes one instruction, converting Go-level panics of the interpreted program.
func (m *Machine) stepGuard(th *Thread, f *Frame) {
	defer func() {
		if r := recover(); r != nil {
			if gp, ok := r.(*goPanicV); ok {
				th.panic = gp
				return
			}
			panic(r)
		}
	}()
	instr := f.block.Instrs[f.ip]
	f.ip++
	m.exec(th, f, instr)
}

func (m *Machine) popFrame(th *Thread, normal bool, res Value) {
	f := th.stack[len(th.stack)-1]
	th.stack = th.stack[:len(th.stack)-1]
	if normal && f.retTo != nil && len(th.stack) > 0 {
		th.stack[len(th.stack)-1].env[f.retTo] = res
	}
	if len(th.stack) == 0 && normal {
		th.result = res
	}
	if f.onExit != nil {
		f.onExit(normal, res)
	}
}

func (m *Machine) unwind(th *Thread) {
	if len(th.stack) == 0 {
		th.done = true
		return
	}
	f := th.stack[len(th.stack)-1]
	if len(f.defers) > 0 {
		d := f.defers[len(f.defers)-1]
		f.defers = f.defers[:len(f.defers)-1]
		saved := th.panic
		th.panic = nil
		depth := len(th.stack)
		m.invokeDeferred(th, f, d)
		if len(th.stack) > depth {
			nf := th.stack[len(th.stack)-1]
			prevExit := nf.onExit
			nf.onExit = func(normal bool, res Value) {
				if prevExit != nil {
					prevExit(normal, res)
				}
				if th.panic == nil {
					th.panic = saved
				}
			}
		} else if th.panic == nil {
			th.panic = saved
		}
		return
	}
	m.popFrame(th, false, nil)
}

func (m *Machine) crashUnwind(th *Thread) {
	if len(th.stack) == 0 {
		th.done = true
		return
	}
	f := th.stack[len(th.stack)-1]
	m.popFrame(th, false, nil)
	if f.crashBoundary {
		th.crashing = false
	}
}

func (m *Machine) invokeDeferred(th *Thread, f *Frame, d *deferred) {
	m.callValue(th, f, d.fn, d.args, nil, nil)
}

func (m *Machine) jump(f *Frame, to *ssa.BasicBlock) {
	f.visits[to.Index]++
	if f.visits[to.Index] > m.Cfg.Unwind {
		if m.Cfg.CutOnUnwind {
			panic(pathEnd{kind: "cut", msg: fmt.Sprintf("loop bound %d reached in %s", m.Cfg.Unwind, f.fn)})
		}
		panic(pathEnd{kind: "unwind", msg: fmt.Sprintf("loop bound %d exceeded in %s block %d%s", m.Cfg.Unwind, f.fn, to.Index, m.where())})
	}
	if f.visits[to.Index] > m.res.MaxUnwind {
		m.res.MaxUnwind = f.visits[to.Index]
	}
	from := f.block
	// parallel phi evaluation
	var phis []Value
	n := 0
	for _, in := range to.Instrs {
		phi, ok := in.(*ssa.Phi)
		if !ok {
			break
		}
		idx := -1
		for i, p := range to.Preds {
			if p == from {
				idx = i
				break
			}
		}
		phis = append(phis, m.get(f, phi.Edges[idx]))
		n++
	}
	for i := 0; i < n; i++ {
		f.env[to.Instrs[i].(*ssa.Phi)] = phis[i]
	}
	f.prev = from
	f.block = to
	f.ip = n
}

func (m *Machine) exec(th *Thread, f *Frame, instr ssa.Instruction) {
	switch in := instr.(type) {
	case *ssa.DebugRef:
	case *ssa.Alloc:
		t := in.Type().(*types.Pointer).Elem()
		if at, ok := t.Underlying().(*types.Array); ok && in.Comment == "varargs" && isByte(at.Elem()) {
			// the argument array of append(b, 'x', ...): element-wise, so that single bytes can be stored
			e := make([]Value, at.Len())
			for i := range e {
				e[i] = BVC(8, 0)
			}
			f.env[in] = Ptr{O: m.newObj(&ArrayV{E: e}, in.Comment)}
			break
		}
		f.env[in] = Ptr{O: m.newObj(m.zero(t), in.Comment)}
	case *ssa.BinOp:
		f.env[in] = m.binop(in.Op, m.get(f, in.X), m.get(f, in.Y), in.X.Type(), in.Y.Type())
	case *ssa.UnOp:
		if in.Op == token.ARROW {
			// a channel receive: the engine has no channel values that ever become ready, so a
			// spawned goroutine parks here for good (it simply never continues); the main thread of
			// a harness may not
			if th.id == 0 {
				panic(m.unsupported("channel receive on the harness's main thread"))
			}
			m.note("a goroutine parked forever on a channel receive")
			th.stack = nil
			th.done = true
			return
		}
		f.env[in] = m.unop(in, m.get(f, in.X))
	case *ssa.Call:
		m.doCall(th, f, &in.Call, in)
	case *ssa.ChangeInterface:
		f.env[in] = m.get(f, in.X)
	case *ssa.ChangeType:
		f.env[in] = m.get(f, in.X)
	case *ssa.Convert:
		f.env[in] = m.convert(m.get(f, in.X), in.X.Type(), in.Type())
	case *ssa.MultiConvert:
		f.env[in] = m.convert(m.get(f, in.X), in.X.Type(), in.Type())
	case *ssa.Defer:
		d := &deferred{}
		cc := &in.Call
		if cc.IsInvoke() {
			recv := m.get(f, cc.Value).(IfaceV)
			if recv.T == nil {
				panic(m.goPanic("defer of method on nil interface"))
			}
			d.fn = &FuncV{Fn: m.lookupMethod(recv.T, cc.Method)}
			d.args = append(d.args, recv.V)
		} else {
			d.fn = m.get(f, cc.Value)
		}
		for _, a := range cc.Args {
			d.args = append(d.args, m.get(f, a))
		}
		f.defers = append(f.defers, d)
	case *ssa.RunDefers:
		if len(f.defers) > 0 {
			d := f.defers[len(f.defers)-1]
			f.defers = f.defers[:len(f.defers)-1]
			f.ip-- // come back here for the next one
			m.invokeDeferred(th, f, d)
		}
	case *ssa.Extract:
		f.env[in] = m.get(f, in.Tuple).(TupleV)[in.Index]
	case *ssa.Field:
		f.env[in] = m.get(f, in.X).(*StructV).F[in.Field]
	case *ssa.FieldAddr:
		p := m.get(f, in.X).(Ptr)
		if p.O == nil {
			panic(m.goPanic("nil pointer dereference (field %d)", in.Field))
		}
		np := make([]int, len(p.Path)+1)
		copy(np, p.Path)
		np[len(p.Path)] = in.Field
		f.env[in] = Ptr{O: p.O, Path: np}
	case *ssa.If:
		c := m.get(f, in.Cond).(*Term)
		if m.branch("if@"+m.posOf(in, f), c) {
			m.jump(f, f.block.Succs[0])
		} else {
			m.jump(f, f.block.Succs[1])
		}
	case *ssa.Jump:
		m.jump(f, f.block.Succs[0])
	case *ssa.Index:
		f.env[in] = m.index(m.get(f, in.X), m.get(f, in.Index), in.X.Type())
	case *ssa.IndexAddr:
		f.env[in] = m.indexAddr(m.get(f, in.X), m.get(f, in.Index), in.X.Type())
	case *ssa.Lookup:
		f.env[in] = m.lookup(m.get(f, in.X), m.get(f, in.Index), in)
	case *ssa.MakeClosure:
		fv := make([]Value, len(in.Bindings))
		for i, b := range in.Bindings {
			fv[i] = m.get(f, b)
		}
		f.env[in] = &FuncV{Fn: in.Fn.(*ssa.Function), FV: fv}
	case *ssa.MakeInterface:
		f.env[in] = IfaceV{T: in.X.Type(), V: m.get(f, in.X)}
	case *ssa.MakeMap:
		m.objSeq++
		f.env[in] = MapV{M: &MapObj{ID: m.objSeq}}
	case *ssa.MakeSlice:
		if lt, ok := m.get(f, in.Len).(*Term); ok && !lt.IsConst() && isByte(in.Type().Underlying().(*types.Slice).Elem()) && m.Domain != DomArray && in.Len == in.Cap {
			// make([]byte, n) with a symbolic n: Go panics for a negative or absurd n; a large n is an
			// allocation of that many bytes. Otherwise: n bytes (zero in Go; unconstrained here, which is
			// flagged, since such buffers are made to be overwritten).
			n := BVResize(lt, 64, true)
			if m.branch("makeslice.negative", BVCmp("bvslt", n, BVC(64, 0))) {
				panic(m.goPanic("makeslice: len out of range (negative length)"))
			}
			if m.branch("makeslice.huge", BVCmp("bvugt", n, BVC(64, 1<<30))) {
				panic(m.goPanic("makeslice: allocation of more than 1 GiB whose size the input controls"))
			}
			t := m.fresh("make.bytes", m.bytesSort())
			m.assume(Eq(m.strLen(t), n))
			m.weak = appendUniq(m.weak, []string{"contents of make([]byte, n) with symbolic n (zero in Go, unconstrained here)"}, 20)
			f.env[in] = m.freshBytes(t)
			break
		}
		ln := m.concInt("makeslice.len", m.get(f, in.Len))
		cp := m.concInt("makeslice.cap", m.get(f, in.Cap))
		if ln < 0 || cp < ln {
			panic(m.goPanic("makeslice: len out of range"))
		}
		if cp > m.Cfg.MaxAlloc {
			panic(m.unsupported("makeslice of %d elements", cp))
		}
		et := in.Type().Underlying().(*types.Slice).Elem()
		if isByte(et) && m.Domain != DomArray {
			if cp == 0 || ln == 0 {
				f.env[in] = m.freshBytes(m.strLit(""))
			} else {
				f.env[in] = m.freshBytes(m.zeroBytes(ln))
			}
			break
		}
		e := make([]Value, cp)
		z := m.zero(et)
		for i := range e {
			e[i] = z
		}
		f.env[in] = SliceV{O: m.newObj(&ArrayV{E: e}, "makeslice"), Len: ln, Cap: cp}
	case *ssa.MapUpdate:
		m.mapUpdate(m.get(f, in.Map), m.get(f, in.Key), m.get(f, in.Value))
	case *ssa.Next:
		it := m.get(f, in.Iter).(*IterV)
		if in.IsString {
			panic(m.unsupported("range over string"))
		}
		if it.i < len(it.keys) {
			f.env[in] = TupleV{True, it.keys[it.i], it.vals[it.i]}
			it.i++
		} else {
			mt := in.Iter.(*ssa.Range).X.Type().Underlying().(*types.Map)
			f.env[in] = TupleV{False, m.zero(mt.Key()), m.zero(mt.Elem())}
		}
	case *ssa.Range:
		x := m.get(f, in.X)
		mv, ok := x.(MapV)
		if !ok {
			panic(m.unsupported("range over %T", x))
		}
		it := &IterV{}
		if mv.M != nil {
			it.keys = append(it.keys, mv.M.Keys...)
			it.vals = append(it.vals, mv.M.Vals...)
		}
		f.env[in] = it
	case *ssa.Panic:
		v := m.get(f, in.X)
		panic(&goPanicV{msg: "explicit panic", site: m.site(), val: v})
	case *ssa.Phi:
		panic(m.unsupported("stray phi"))
	case *ssa.Return:
		var res Value
		switch len(in.Results) {
		case 0:
		case 1:
			res = m.get(f, in.Results[0])
		default:
			tv := make(TupleV, len(in.Results))
			for i, r := range in.Results {
				tv[i] = m.get(f, r)
			}
			res = tv
		}
		m.popFrame(th, true, res)
	case *ssa.Slice:
		f.env[in] = m.slice(f, in)
	case *ssa.SliceToArrayPointer:
		f.env[in] = m.sliceToArrayPtr(m.get(f, in.X), in.Type())
	case *ssa.Store:
		if bc, isCell := m.get(f, in.Addr).(ByteCell); isCell {
			m.storeByte(bc, m.get(f, in.Val).(*Term))
			break
		}
		p := m.get(f, in.Addr).(Ptr)
		m.store(p, m.getRaw(f, in.Val))
	case *ssa.TypeAssert:
		f.env[in] = m.typeAssert(in, m.get(f, in.X))
	case *ssa.Go:
		panic(m.unsupported("go statement (use verifrt.Spawn in harnesses)"))
	case *ssa.Select:
		if th.id == 0 || !in.Blocking {
			panic(m.unsupported("select on the harness's main thread / non-blocking select"))
		}
		m.note("a goroutine parked forever on a select")
		th.stack = nil
		th.done = true
		return
	case *ssa.Send, *ssa.MakeChan:
		panic(m.unsupported("channel operation %T", instr))
	default:
		panic(m.unsupported("instruction %T", instr))
	}
}

func (m *Machine) posOf(in ssa.Instruction, f *Frame) string {
	pos := in.Pos()
	if !pos.IsValid() {
		if v, ok := in.(*ssa.If); ok {
			if i, ok := v.Cond.(ssa.Instruction); ok {
				pos = i.Pos()
			}
		}
	}
	if !pos.IsValid() {
		return fmt.Sprintf("%s#b%d", f.fn.Name(), f.block.Index)
	}
	p := m.Prog.Fset.Position(pos)
	return fmt.Sprintf("%s:%d", shortFile(p.Filename), p.Line)
}

// ---------- operators ----------

func (m *Machine) unop(in *ssa.UnOp, x Value) Value {
	switch in.Op {
	case token.MUL:
		if bc, isCell := x.(ByteCell); isCell {
			if m.Domain == DomString {
				return m.strIndex(m.current(bc.B), bc.I)
			}
			m.weak = appendUniq(m.weak, []string{"a single byte read from opaque bytes"}, 20)
			return App("uf.weak.byteAt", SBV(8), m.current(bc.B), bc.I)
		}
		p, ok := x.(Ptr)
		if !ok {
			panic(m.unsupported("load through %T", x))
		}
		return m.load(p)
	case token.NOT:
		return Not(x.(*Term))
	case token.SUB:
		return BVNeg(x.(*Term))
	case token.XOR:
		return BVNot(x.(*Term))
	}
	panic(m.unsupported("unop %s", in.Op))
}

func (m *Machine) binop(op token.Token, x, y Value, xt, yt types.Type) Value {
	switch op {
	case token.EQL:
		return m.equal(x, y, xt)
	case token.NEQ:
		return Not(m.equal(x, y, xt))
	}
	xa, ok1 := x.(*Term)
	ya, ok2 := y.(*Term)
	if !ok1 || !ok2 {
		panic(m.unsupported("binop %s on %T, %T", op, x, y))
	}
	if xa.S.K == KBytes || xa.S.K == KString {
		return m.strBinop(op, xa, ya)
	}
	if xa.S.K == KBool {
		switch op {
		case token.AND, token.LAND:
			return And(xa, ya)
		case token.OR, token.LOR:
			return Or(xa, ya)
		}
		panic(m.unsupported("bool binop %s", op))
	}
	signed := isSigned(xt)
	if b, ok := xt.Underlying().(*types.Basic); ok && b.Info()&types.IsFloat != 0 {
		panic(m.unsupported("floating-point arithmetic"))
	}
	w := xa.S.W
	switch op {
	case token.ADD:
		return BVBin("bvadd", xa, ya)
	case token.SUB:
		return BVBin("bvsub", xa, ya)
	case token.MUL:
		return BVBin("bvmul", xa, ya)
	case token.QUO, token.REM:
		if !m.branch("divzero", Not(Eq(ya, BVC(w, 0)))) {
			panic(m.goPanic("integer divide by zero"))
		}
		if op == token.QUO {
			if signed {
				return BVBin("bvsdiv", xa, ya)
			}
			return BVBin("bvudiv", xa, ya)
		}
		if signed {
			return BVBin("bvsrem", xa, ya)
		}
		return BVBin("bvurem", xa, ya)
	case token.AND:
		return BVBin("bvand", xa, ya)
	case token.OR:
		return BVBin("bvor", xa, ya)
	case token.XOR:
		return BVBin("bvxor", xa, ya)
	case token.AND_NOT:
		return BVBin("bvand", xa, BVNot(ya))
	case token.SHL, token.SHR:
		if isSigned(yt) {
			if !m.branch("negshift", BVCmp("bvsge", ya, BVC(ya.S.W, 0))) {
				panic(m.goPanic("negative shift amount"))
			}
		}
		// saturate the count at the operand width
		var big *Term
		var cnt *Term
		if ya.S.W > w {
			big = BVCmp("bvuge", ya, BVC(ya.S.W, uint64(w)))
			cnt = BVResize(ya, w, false)
		} else {
			cnt = BVResize(ya, w, false)
			big = BVCmp("bvuge", cnt, BVC(w, uint64(w)))
		}
		if op == token.SHL {
			return Ite(big, BVC(w, 0), BVBin("bvshl", xa, cnt))
		}
		if signed {
			return Ite(big, BVBin("bvashr", xa, BVC(w, uint64(w-1))), BVBin("bvashr", xa, cnt))
		}
		return Ite(big, BVC(w, 0), BVBin("bvlshr", xa, cnt))
	case token.LSS, token.LEQ, token.GTR, token.GEQ:
		var o string
		switch op {
		case token.LSS:
			o = "lt"
		case token.LEQ:
			o = "le"
		case token.GTR:
			o = "gt"
		case token.GEQ:
			o = "ge"
		}
		if signed {
			return BVCmp("bvs"+o, xa, ya)
		}
		return BVCmp("bvu"+o, xa, ya)
	}
	panic(m.unsupported("binop %s", op))
}

// equal compares two values of static type t.
func (m *Machine) equal(x, y Value, t types.Type) *Term {
	switch a := x.(type) {
	case *Term:
		b, ok := y.(*Term)
		if !ok {
			panic(m.unsupported("equal: %T vs %T", x, y))
		}
		return Eq(a, b)
	case Ptr:
		b := y.(Ptr)
		return BoolC(a.same(b))
	case IfaceV:
		b, ok := y.(IfaceV)
		if !ok {
			panic(m.unsupported("equal: iface vs %T", y))
		}
		if a.T == nil || b.T == nil {
			return BoolC(a.T == nil && b.T == nil)
		}
		if !types.Identical(a.T, b.T) {
			return False
		}
		return m.equal(a.V, b.V, a.T)
	case *StructV:
		b := y.(*StructV)
		r := True
		st := t.Underlying().(*types.Struct)
		for i := range a.F {
			r = And(r, m.equal(a.F[i], b.F[i], st.Field(i).Type()))
		}
		return r
	case *ArrayV:
		b := y.(*ArrayV)
		r := True
		et := t.Underlying().(*types.Array).Elem()
		for i := range a.E {
			r = And(r, m.equal(a.E[i], b.E[i], et))
		}
		return r
	case ByteArr:
		b := y.(ByteArr)
		return Eq(a.T, b.T)
	case *FuncV:
		b, _ := y.(*FuncV)
		if a == nil || b == nil {
			return BoolC(a == nil && b == nil)
		}
		panic(m.unsupported("comparison of non-nil funcs"))
	case SliceV:
		b, ok := y.(SliceV)
		if ok && (a.O == nil || b.O == nil) {
			return BoolC(a.O == nil && b.O == nil)
		}
		if bs, ok := y.(ByteSlice); ok {
			return BoolC(a.O == nil && bs.Nil)
		}
		panic(m.unsupported("comparison of non-nil slices"))
	case ByteSlice:
		switch b := y.(type) {
		case ByteSlice:
			if a.Nil || b.Nil {
				return BoolC(a.Nil && b.Nil)
			}
		case SliceV:
			return BoolC(a.Nil && b.O == nil)
		}
		panic(m.unsupported("comparison of non-nil byte slices"))
	case MapV:
		b := y.(MapV)
		if a.M == nil || b.M == nil {
			return BoolC(a.M == nil && b.M == nil)
		}
		panic(m.unsupported("comparison of non-nil maps"))
	case ChanV:
		return BoolC(a.id == y.(ChanV).id)
	case nil:
		return BoolC(y == nil)
	}
	panic(m.unsupported("equal on %T", x))
}

// ---------- conversions ----------

func (m *Machine) convert(x Value, from, to types.Type) Value {
	fu, tu := from.Underlying(), to.Underlying()
	// string <-> []byte
	if fb, ok := fu.(*types.Basic); ok && fb.Info()&types.IsString != 0 {
		if ts, ok := tu.(*types.Slice); ok {
			if isByte(ts.Elem()) {
				if m.Domain == DomArray {
					return m.stringToByteArraySlice(x.(*Term))
				}
				return m.freshBytes(x.(*Term))
			}
			panic(m.unsupported("string to %s", to))
		}
		if tb, ok := tu.(*types.Basic); ok && tb.Info()&types.IsString != 0 {
			return x
		}
	}
	if fs, ok := fu.(*types.Slice); ok {
		if tb, ok := tu.(*types.Basic); ok && tb.Info()&types.IsString != 0 && isByte(fs.Elem()) {
			switch b := x.(type) {
			case ByteSlice:
				if b.Nil {
					return m.strLit("")
				}
				return m.current(b)
			case SliceV:
				return m.byteSliceToString(b)
			}
		}
		if ta, ok := tu.(*types.Array); ok {
			// slice to array conversion: panics if too short
			p := m.sliceToArrayPtr(x, types.NewPointer(to))
			_ = ta
			return m.load(p.(Ptr))
		}
		if _, ok := tu.(*types.Slice); ok {
			return x
		}
	}
	if fb, ok := fu.(*types.Basic); ok {
		if tb, ok := tu.(*types.Basic); ok {
			fw, fs, fok := intWidth(fb)
			tw, _, tok := intWidth(tb)
			if fok && tok {
				return BVResize(x.(*Term), tw, fs)
			}
			if fok && tb.Info()&types.IsString != 0 {
				panic(m.unsupported("integer to string conversion"))
			}
			if (fb.Info()|tb.Info())&types.IsFloat != 0 {
				if t, ok := x.(*Term); ok && t.IsConst() {
					return convertFloatConst(t, fb, tb, fw, fs, tw)
				}
				panic(m.unsupported("floating-point conversion"))
			}
			if fb.Kind() == types.UnsafePointer || tb.Kind() == types.UnsafePointer {
				return x
			}
		}
	}
	if _, ok := fu.(*types.Pointer); ok {
		return x
	}
	if types.Identical(fu, tu) {
		return x
	}
	panic(m.unsupported("conversion %s -> %s", from, to))
}

// ---------- indexing ----------

func (m *Machine) boundsCheck(label string, idx *Term, n int) int {
	if idx.IsConst() {
		i := int(sext(idx.S.W, idx.U))
		if i < 0 || i >= n {
			panic(m.goPanic("index out of range [%d] with length %d", i, n))
		}
		return i
	}
	inRange := And(BVCmp("bvsge", idx, BVC(idx.S.W, 0)), BVCmp("bvslt", idx, BVC(idx.S.W, uint64(n))))
	if !m.branch(label+".inrange", inRange) {
		panic(m.goPanic("index out of range (symbolic) with length %d", n))
	}
	return int(m.concretize(label, idx))
}

func (m *Machine) index(x, idx Value, xt types.Type) Value {
	switch a := x.(type) {
	case *ArrayV:
		i := m.boundsCheck("index", idx.(*Term), len(a.E))
		return a.E[i]
	case SliceV:
		i := m.boundsCheck("index", idx.(*Term), a.Len)
		return a.O.V.(*ArrayV).E[a.Off+i]
	case *Term:
		return m.strIndex(a, idx.(*Term))
	case ByteSlice:
		return m.strIndex(a.T, idx.(*Term))
	}
	panic(m.unsupported("index on %T", x))
}

func (m *Machine) indexAddr(x, idx Value, xt types.Type) Value {
	switch a := x.(type) {
	case SliceV:
		i := m.boundsCheck("indexaddr", idx.(*Term), a.Len)
		return Ptr{O: a.O, Path: []int{a.Off + i}}
	case Ptr:
		if a.O == nil {
			panic(m.goPanic("nil pointer dereference (index)"))
		}
		arr := m.load(a)
		av, ok := arr.(*ArrayV)
		if !ok {
			panic(m.unsupported("byte-level addressing into %T (opaque bytes)", arr))
		}
		i := m.boundsCheck("indexaddr", idx.(*Term), len(av.E))
		np := make([]int, len(a.Path)+1)
		copy(np, a.Path)
		np[len(a.Path)] = i
		return Ptr{O: a.O, Path: np}
	case ByteSlice:
		// &b[i] of an opaque []byte: a byte cell (bounds-checked now, like Go's IndexAddr)
		it := BVResize(idx.(*Term), 64, true)
		if !m.branch("byteindex.inrange", And(Not(BVCmp("bvslt", it, BVC(64, 0))), BVCmp("bvult", it, m.bytesLen(a)))) {
			panic(m.goPanic("index out of range (opaque []byte)"))
		}
		return ByteCell{B: a, I: it}
	}
	panic(m.unsupported("indexaddr on %T", x))
}

func (m *Machine) slice(f *Frame, in *ssa.Slice) Value {
	x := m.get(f, in.X)
	var lo, hi, mx = -1, -1, -1
	var lot, hit *Term
	if in.Low != nil {
		lot = m.get(f, in.Low).(*Term)
	}
	if in.High != nil {
		hit = m.get(f, in.High).(*Term)
	}
	switch a := x.(type) {
	case *Term: // string
		return m.strSlice(a, lot, hit)
	case ByteSlice:
		if lot == nil && hit == nil {
			return a
		}
		lo0 := lot == nil || (lot.IsConst() && lot.U == 0)
		if a.Nil {
			// nil[:0] is nil: no backing array (other bounds panic in Go; strSlice reports them)
			if hit == nil || (hit.IsConst() && hit.U == 0) {
				if lo0 {
					return a
				}
			}
			a = ByteSlice{T: m.strLit("")}
		}
		if hit != nil && hit.IsConst() && hit.U == 0 && lo0 {
			return ByteSlice{T: m.strLit(""), Resliced: true, Buf: a.Buf, AtStart: a.AtStart} // x[:0]: empty, but keeps x's backing array
		}
		if m.Domain != DomString {
			// bounds of a re-slice of opaque bytes: Go checks lo <= hi <= cap. The capacity of such a
			// value is the allocator's choice (not below its length), so a bound above the length can
			// panic and is reported; within the length the sub-slice is an uninterpreted function.
			ln := m.bytesLen(a)
			h := ln
			if hit != nil {
				h = BVResize(hit, 64, true)
				if !m.branch("byteslice.hi-in-range", And(Not(BVCmp("bvslt", h, BVC(64, 0))), BVCmp("bvule", h, ln))) {
					panic(m.goPanic("slice bounds out of range [:hi] beyond the length of an opaque []byte (its capacity is not under the program's control)"))
				}
			}
			if lot != nil {
				l := BVResize(lot, 64, true)
				if !m.branch("byteslice.lo-in-range", And(Not(BVCmp("bvslt", l, BVC(64, 0))), BVCmp("bvule", l, h))) {
					panic(m.goPanic("slice bounds out of range [lo:hi] on an opaque []byte"))
				}
			}
		}
		return ByteSlice{T: m.strSlice(m.current(a), lot, hit), Resliced: true, Buf: a.Buf, AtStart: a.AtStart && lo0}
	}
	if lot != nil {
		lo = m.concInt("slice.lo", lot)
	}
	if hit != nil {
		hi = m.concInt("slice.hi", hit)
	}
	if in.Max != nil {
		mx = m.concInt("slice.max", m.get(f, in.Max))
	}
	switch a := x.(type) {
	case SliceV:
		if lo < 0 {
			lo = 0
		}
		if hi < 0 {
			hi = a.Len
		}
		if mx < 0 {
			mx = a.Cap
		}
		if lo > hi || hi > mx || mx > a.Cap {
			panic(m.goPanic("slice bounds out of range [%d:%d:%d] with capacity %d", lo, hi, mx, a.Cap))
		}
		if a.O == nil {
			return SliceV{}
		}
		return SliceV{O: a.O, Off: a.Off + lo, Len: hi - lo, Cap: mx - lo}
	case Ptr: // pointer to array
		if a.O == nil {
			panic(m.goPanic("nil pointer dereference (slice)"))
		}
		arr := m.load(a)
		switch av := arr.(type) {
		case ByteArr:
			if al, isAlloc := in.X.(*ssa.Alloc); isAlloc && al.Comment == "makeslice" && lo <= 0 && mx < 0 {
				// make([]byte, n, N) with constant N: a fresh slice of n zero bytes; nothing else
				// can name the array. (The capacity is not tracked for opaque bytes.)
				if hi < 0 {
					hi = av.N
				}
				if hi == 0 {
					return m.freshBytes(m.strLit(""))
				}
				return m.freshBytes(m.zeroBytes(hi))
			}
			if (lo > 0) || (hi >= 0 && hi != av.N) {
				panic(m.unsupported("sub-slicing an opaque [%d]byte", av.N))
			}
			pp := a
			return ByteSlice{T: av.T, Back: &pp}
		case *ArrayV:
			n := len(av.E)
			if lo < 0 {
				lo = 0
			}
			if hi < 0 {
				hi = n
			}
			if mx < 0 {
				mx = n
			}
			if lo > hi || hi > mx || mx > n {
				panic(m.goPanic("slice bounds out of range [%d:%d:%d] with array length %d", lo, hi, mx, n))
			}
			if len(a.Path) != 0 {
				panic(m.unsupported("slicing an array nested inside another object"))
			}
			return SliceV{O: a.O, Off: lo, Len: hi - lo, Cap: mx - lo}
		}
	}
	panic(m.unsupported("slice of %T", x))
}

func (m *Machine) sliceToArrayPtr(x Value, pt types.Type) Value {
	at := pt.(*types.Pointer).Elem().Underlying().(*types.Array)
	n := int(at.Len())
	switch a := x.(type) {
	case ByteSlice:
		ln := m.bytesLen(a)
		if !m.branch("slice2array.len", BVCmp("bvsge", ln, BVC(64, uint64(n)))) {
			panic(m.goPanic("cannot convert slice to array of length %d: slice too short", n))
		}
		// the first n bytes of a; equal to a when len(a) == n
		t := a.T
		if a.Nil {
			t = m.strLit("")
		}
		exact := Eq(ln, BVC(64, uint64(n)))
		pre := m.prefixN(t, n)
		return Ptr{O: m.newObj(ByteArr{T: Ite(exact, t, pre), N: n}, "slice2array")}
	case SliceV:
		if a.Len < n {
			panic(m.goPanic("cannot convert slice with length %d to array or pointer to array with length %d", a.Len, n))
		}
		if n == 0 {
			return Ptr{O: m.newObj(&ArrayV{}, "slice2array")}
		}
		if a.Off != 0 {
			panic(m.unsupported("slice-to-array pointer with non-zero offset"))
		}
		return Ptr{O: a.O}
	}
	panic(m.unsupported("slice to array pointer on %T", x))
}

// ---------- maps ----------

func (m *Machine) keyEq(a, b Value) *Term {
	switch x := a.(type) {
	case *Term:
		return Eq(x, b.(*Term))
	case Ptr:
		return BoolC(x.same(b.(Ptr)))
	case IfaceV:
		return m.equal(a, b, nil)
	case *StructV:
		y := b.(*StructV)
		r := True
		for i := range x.F {
			r = And(r, m.keyEq(x.F[i], y.F[i]))
		}
		return r
	case ByteArr:
		return Eq(x.T, b.(ByteArr).T)
	}
	panic(m.unsupported("map key of kind %T", a))
}

// mapFind returns the index of the entry matching key, or -1, forking on symbolic keys.
func (m *Machine) mapFind(mo *MapObj, key Value) int {
	if mo == nil {
		return -1
	}
	for i, k := range mo.Keys {
		eq := m.keyEq(k, key)
		if m.branch(fmt.Sprintf("mapkey#%d", i), eq) {
			return i
		}
	}
	return -1
}

func (m *Machine) lookup(x, key Value, in *ssa.Lookup) Value {
	mv, ok := x.(MapV)
	if !ok {
		// string indexing s[i]
		if t, ok := x.(*Term); ok {
			return m.strIndex(t, key.(*Term))
		}
		panic(m.unsupported("lookup on %T", x))
	}
	mt := in.X.Type().Underlying().(*types.Map)
	i := m.mapFind(mv.M, key)
	var v Value
	if i >= 0 {
		v = mv.M.Vals[i]
	} else {
		v = m.zero(mt.Elem())
	}
	if in.CommaOk {
		return TupleV{v, BoolC(i >= 0)}
	}
	return v
}

func (m *Machine) mapUpdate(x, key, val Value) {
	mv := x.(MapV)
	if mv.M == nil {
		panic(m.goPanic("assignment to entry in nil map"))
	}
	i := m.mapFind(mv.M, key)
	if i >= 0 {
		mv.M.Vals[i] = val
		return
	}
	mv.M.Keys = append(mv.M.Keys, key)
	mv.M.Vals = append(mv.M.Vals, val)
}

func (m *Machine) mapDelete(x, key Value) {
	mv := x.(MapV)
	if mv.M == nil {
		return
	}
	i := m.mapFind(mv.M, key)
	if i >= 0 {
		mv.M.Keys = append(append([]Value{}, mv.M.Keys[:i]...), mv.M.Keys[i+1:]...)
		mv.M.Vals = append(append([]Value{}, mv.M.Vals[:i]...), mv.M.Vals[i+1:]...)
	}
}

// ---------- type assertions ----------

func (m *Machine) typeAssert(in *ssa.TypeAssert, x Value) Value {
	iv, ok := x.(IfaceV)
	if !ok {
		panic(m.unsupported("type assert on %T", x))
	}
	okb := false
	if iv.T != nil {
		if it, isIface := in.AssertedType.Underlying().(*types.Interface); isIface {
			okb = types.Implements(iv.T, it)
		} else {
			okb = types.Identical(iv.T, in.AssertedType)
		}
	}
	var res Value
	if okb {
		if _, isIface := in.AssertedType.Underlying().(*types.Interface); isIface {
			res = iv
		} else {
			res = iv.V
		}
	} else {
		if !in.CommaOk {
			panic(m.goPanic("interface conversion: %v is not %s", iv.T, in.AssertedType))
		}
		res = m.zero(in.AssertedType)
	}
	if in.CommaOk {
		return TupleV{res, BoolC(okb)}
	}
	return res
}
