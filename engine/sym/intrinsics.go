package sym

import (
	"fmt"
	"go/types"
	"strings"

	"golang.org/x/tools/go/ssa"
)

type intrinsic func(m *Machine, th *Thread, caller *Frame, args []Value, retTo ssa.Value) Value

const rtPkg = "github.com/transparency-dev/witness/internal/verifrt"

var intrinsics map[string]intrinsic

// pkgIntrinsics stub every function of a package (logging etc.): results are zero values.
var pkgIntrinsics = map[string]func(m *Machine, fn *ssa.Function, args []Value) Value{
	"k8s.io/klog/v2": zeroResults,
}

func zeroResults(m *Machine, fn *ssa.Function, args []Value) Value {
	switch fn.Name() {
	case "Fatal", "Fatalf", "Fatalln", "Exit", "Exitf", "Exitln", "FatalDepth", "ExitDepth":
		// klog.Fatal* / Exit* terminate the process
		panic(pathEnd{kind: "exit", msg: "klog." + fn.Name()})
	}
	res := fn.Signature.Results()
	switch res.Len() {
	case 0:
		return nil
	case 1:
		return m.zero(res.At(0).Type())
	}
	return m.zero(res)
}

func init() {
	intrinsics = map[string]intrinsic{
		rtPkg + ".U64": func(m *Machine, _ *Thread, _ *Frame, a []Value, _ ssa.Value) Value {
			return m.fresh(m.litArg(a[0], "name"), SBV(64))
		},
		rtPkg + ".U32": func(m *Machine, _ *Thread, _ *Frame, a []Value, _ ssa.Value) Value {
			return m.fresh(m.litArg(a[0], "name"), SBV(32))
		},
		rtPkg + ".U8": func(m *Machine, _ *Thread, _ *Frame, a []Value, _ ssa.Value) Value {
			return m.fresh(m.litArg(a[0], "name"), SBV(8))
		},
		rtPkg + ".Int": func(m *Machine, _ *Thread, _ *Frame, a []Value, _ ssa.Value) Value {
			return m.fresh(m.litArg(a[0], "name"), SBV(64))
		},
		rtPkg + ".Bool": func(m *Machine, _ *Thread, _ *Frame, a []Value, _ ssa.Value) Value {
			return m.fresh(m.litArg(a[0], "name"), SBool)
		},
		rtPkg + ".Bytes": func(m *Machine, _ *Thread, _ *Frame, a []Value, _ ssa.Value) Value {
			return m.freshBytes(m.fresh(m.litArg(a[0], "name"), m.bytesSort()))
		},
		rtPkg + ".Str": func(m *Machine, _ *Thread, _ *Frame, a []Value, _ ssa.Value) Value {
			return m.fresh(m.litArg(a[0], "name"), m.bytesSort())
		},
		rtPkg + ".ByteArray": func(m *Machine, _ *Thread, _ *Frame, a []Value, _ ssa.Value) Value {
			// []byte of concrete length n with one 8-bit variable per element
			name := m.litArg(a[0], "name")
			n := m.concInt("bytearray.len", a[1])
			e := make([]Value, n)
			for i := range e {
				e[i] = m.fresh(fmt.Sprintf("%s[%d]", name, i), SBV(8))
			}
			if n == 0 {
				return SliceV{O: m.newObj(&ArrayV{}, name), Len: 0, Cap: 0}
			}
			return SliceV{O: m.newObj(&ArrayV{E: e}, name), Len: n, Cap: n}
		},
		rtPkg + ".Assume": func(m *Machine, _ *Thread, _ *Frame, a []Value, _ ssa.Value) Value {
			m.assume(a[0].(*Term))
			return nil
		},
		rtPkg + ".Assert": func(m *Machine, _ *Thread, _ *Frame, a []Value, _ ssa.Value) Value {
			m.assertOp(a[0].(*Term), m.litArg(a[1], "assertion id"))
			return nil
		},
		rtPkg + ".Cover": func(m *Machine, _ *Thread, _ *Frame, a []Value, _ ssa.Value) Value {
			m.coverOp(a[0].(*Term), m.litArg(a[1], "cover id"))
			return nil
		},
		rtPkg + ".Choose": func(m *Machine, _ *Thread, _ *Frame, a []Value, _ ssa.Value) Value {
			n := m.concInt("choose.n", a[0])
			if n <= 0 {
				panic(pathEnd{kind: "infeasible", msg: "Choose(0)"})
			}
			conds := make([]*Term, n)
			return BVC(64, uint64(m.decide("choose", conds)))
		},
		rtPkg + ".Prop": func(m *Machine, _ *Thread, _ *Frame, a []Value, _ ssa.Value) Value {
			return BoolC(m.Cfg.Props[m.litArg(a[0], "property id")])
		},
		rtPkg + ".Param": func(m *Machine, _ *Thread, _ *Frame, a []Value, _ ssa.Value) Value {
			name := m.litArg(a[0], "param name")
			if v, ok := m.Cfg.Params[name]; ok {
				return BVC(64, uint64(v))
			}
			return a[1]
		},
		rtPkg + ".Symbolic": func(m *Machine, _ *Thread, _ *Frame, a []Value, _ ssa.Value) Value { return True },
		rtPkg + ".Name": func(m *Machine, _ *Thread, _ *Frame, a []Value, _ ssa.Value) Value {
			name := m.litArg(a[0], "name")
			v := a[1]
			if iv, ok := v.(IfaceV); ok {
				v = iv.V
			}
			m.named = append(m.named, namedTerm{name, m.termOf(v)})
			return nil
		},
		rtPkg + ".Concrete": func(m *Machine, _ *Thread, _ *Frame, a []Value, _ ssa.Value) Value {
			t := a[0].(*Term)
			return BVC(t.S.W, m.concretize("concrete", t))
		},
		rtPkg + ".UFBool": func(m *Machine, _ *Thread, _ *Frame, a []Value, _ ssa.Value) Value {
			return m.uf(m.litArg(a[0], "UF name"), SBool, m.variadicArgs(a[1]))
		},
		rtPkg + ".UFU64": func(m *Machine, _ *Thread, _ *Frame, a []Value, _ ssa.Value) Value {
			return m.uf(m.litArg(a[0], "UF name"), SBV(64), m.variadicArgs(a[1]))
		},
		rtPkg + ".UFBytes": func(m *Machine, _ *Thread, _ *Frame, a []Value, _ ssa.Value) Value {
			return m.freshBytes(m.uf(m.litArg(a[0], "UF name"), m.bytesSort(), m.variadicArgs(a[1])))
		},
		rtPkg + ".UFStr": func(m *Machine, _ *Thread, _ *Frame, a []Value, _ ssa.Value) Value {
			return m.uf(m.litArg(a[0], "UF name"), m.bytesSort(), m.variadicArgs(a[1]))
		},
		rtPkg + ".Ctor": func(m *Machine, _ *Thread, _ *Frame, a []Value, _ ssa.Value) Value {
			if m.Domain != DomAlgebra {
				panic(m.unsupported("Ctor outside the algebra domain"))
			}
			vs := m.variadicArgs(a[1])
			ts := make([]*Term, len(vs))
			for i, v := range vs {
				ts[i] = m.termOf(v)
			}
			return m.freshBytes(m.ctor(m.litArg(a[0], "ctor name"), ts...))
		},
		rtPkg + ".Eq": func(m *Machine, _ *Thread, _ *Frame, a []Value, _ ssa.Value) Value {
			return m.bytesEqual(a[0], a[1])
		},
		rtPkg + ".Ite": func(m *Machine, _ *Thread, _ *Frame, a []Value, _ ssa.Value) Value {
			x, y := a[1].(ByteSlice), a[2].(ByteSlice)
			if x.Nil || y.Nil {
				panic(m.unsupported("Ite over nil bytes"))
			}
			return ByteSlice{T: Ite(a[0].(*Term), x.T, y.T)}
		},
		rtPkg + ".IteU64": func(m *Machine, _ *Thread, _ *Frame, a []Value, _ ssa.Value) Value {
			return Ite(a[0].(*Term), a[1].(*Term), a[2].(*Term))
		},
		rtPkg + ".Weak": func(m *Machine, _ *Thread, _ *Frame, a []Value, _ ssa.Value) Value {
			m.weak = appendUniq(m.weak, []string{m.litArg(a[0], "reason")}, 20)
			return nil
		},
		rtPkg + ".LazySigs": func(m *Machine, _ *Thread, _ *Frame, a []Value, _ ssa.Value) Value {
			fv, ok := a[0].(*FuncV)
			if !ok || fv == nil {
				panic(m.unsupported("LazySigs needs a function"))
			}
			return &LazyV{Fn: fv}
		},
		rtPkg + ".SQLParse": func(m *Machine, _ *Thread, _ *Frame, a []Value, _ ssa.Value) Value {
			q, ok := m.litValue(a[0].(*Term))
			st := sqlStmt{}
			if ok {
				st = parseSQL(q)
			}
			mkInts := func(xs []int) Value {
				if len(xs) == 0 {
					return SliceV{}
				}
				e := make([]Value, len(xs))
				for i, x := range xs {
					e[i] = BVC(64, uint64(x))
				}
				return SliceV{O: m.newObj(&ArrayV{E: e}, "sqlcols"), Len: len(xs), Cap: len(xs)}
			}
			return TupleV{BVC(64, uint64(st.op)), BVC(64, uint64(st.conflict)), mkInts(st.cols), mkInts(st.lits), mkInts(st.conds)}
		},
		rtPkg + ".Last": func(m *Machine, _ *Thread, _ *Frame, a []Value, _ ssa.Value) Value {
			name := m.litArg(a[0], "name")
			for i := len(m.named) - 1; i >= 0; i-- {
				n := m.named[i].name
				if n == name || strings.HasPrefix(n, name+"#") {
					return m.named[i].t
				}
			}
			panic(m.unsupported("Last(%q): no such symbolic variable on this path", name))
		},
		rtPkg + ".Prefer": func(m *Machine, _ *Thread, _ *Frame, a []Value, _ ssa.Value) Value {
			m.prefer = append(m.prefer, a[0].(*Term))
			return nil
		},
		rtPkg + ".AlgebraDomain": func(m *Machine, _ *Thread, _ *Frame, a []Value, _ ssa.Value) Value {
			return BoolC(m.Domain == DomAlgebra)
		},
		rtPkg + ".Hash32": func(m *Machine, _ *Thread, _ *Frame, a []Value, _ ssa.Value) Value {
			return ByteArr{T: m.termOf(a[0]), N: 32}
		},
		rtPkg + ".BytesOf32": func(m *Machine, _ *Thread, _ *Frame, a []Value, _ ssa.Value) Value {
			return ByteSlice{T: a[0].(ByteArr).T}
		},
		rtPkg + ".IteBool": func(m *Machine, _ *Thread, _ *Frame, a []Value, _ ssa.Value) Value {
			return Ite(a[0].(*Term), a[1].(*Term), a[2].(*Term))
		},
		rtPkg + ".And": func(m *Machine, _ *Thread, _ *Frame, a []Value, _ ssa.Value) Value {
			return And(a[0].(*Term), a[1].(*Term))
		},
		rtPkg + ".Or": func(m *Machine, _ *Thread, _ *Frame, a []Value, _ ssa.Value) Value {
			return Or(a[0].(*Term), a[1].(*Term))
		},
		rtPkg + ".Implies": func(m *Machine, _ *Thread, _ *Frame, a []Value, _ ssa.Value) Value {
			return Implies(a[0].(*Term), a[1].(*Term))
		},
		rtPkg + ".Unsupported": func(m *Machine, _ *Thread, _ *Frame, a []Value, _ ssa.Value) Value {
			panic(m.unsupported("model: %s", m.litArg(a[0], "message")))
		},
		rtPkg + ".Cut": func(m *Machine, _ *Thread, _ *Frame, a []Value, _ ssa.Value) Value {
			panic(pathEnd{kind: "cut", msg: m.litArg(a[0], "message")})
		},
		rtPkg + ".WrapIndex": func(m *Machine, _ *Thread, _ *Frame, a []Value, _ ssa.Value) Value {
			return BVC(64, uint64(int64(wrapIndex(m.litArg(a[0], "format")))))
		},
		rtPkg + ".IsLit": func(m *Machine, _ *Thread, _ *Frame, a []Value, _ ssa.Value) Value {
			_, ok := m.litValue(m.termOf(a[0]))
			return BoolC(ok)
		},
		rtPkg + ".Note": func(m *Machine, _ *Thread, _ *Frame, a []Value, _ ssa.Value) Value {
			m.note(m.litArg(a[0], "note"))
			return nil
		},
		rtPkg + ".Crash": func(m *Machine, th *Thread, _ *Frame, a []Value, _ ssa.Value) Value {
			th.crashing = true
			return noResult
		},
		rtPkg + ".RunCrashable": func(m *Machine, th *Thread, caller *Frame, a []Value, retTo ssa.Value) Value {
			fv := a[0].(*FuncV)
			depth := len(th.stack)
			m.callValue(th, caller, fv, nil, nil, nil)
			if len(th.stack) > depth {
				nf := th.stack[len(th.stack)-1]
				nf.crashBoundary = true
				nf.onExit = func(normal bool, _ Value) {
					if retTo != nil {
						caller.env[retTo] = BoolC(!normal)
					}
				}
				return noResult
			}
			return False
		},
		rtPkg + ".Spawn": func(m *Machine, th *Thread, caller *Frame, a []Value, _ ssa.Value) Value {
			fv := a[0].(*FuncV)
			nt := &Thread{id: len(m.threads), name: fmt.Sprintf("t%d", len(m.threads))}
			m.threads = append(m.threads, nt)
			old := m.cur
			m.cur = nt
			m.callValue(nt, nil, fv, nil, nil, nil)
			m.cur = old
			return nil
		},
		rtPkg + ".Yield": func(m *Machine, th *Thread, _ *Frame, a []Value, _ ssa.Value) Value {
			if th.id != 0 {
				m.yieldRequested = true
			}
			return nil
		},
		rtPkg + ".Block": func(m *Machine, th *Thread, _ *Frame, a []Value, _ ssa.Value) Value {
			if th.id == 0 {
				panic(m.goPanic("deadlock: the only runnable thread blocks forever"))
			}
			th.blocked = true
			return nil
		},
		rtPkg + ".RunThreads": func(m *Machine, th *Thread, _ *Frame, a []Value, _ ssa.Value) Value {
			m.runThreads(th)
			return nil
		},
		rtPkg + ".Deadlocked": func(m *Machine, th *Thread, _ *Frame, a []Value, _ ssa.Value) Value {
			if v, ok := m.side["deadlock"]; ok {
				return v
			}
			return False
		},
		rtPkg + ".ThreadID": func(m *Machine, th *Thread, _ *Frame, a []Value, _ ssa.Value) Value {
			return BVC(64, uint64(th.id))
		},

		"crypto/sha256.Sum256": func(m *Machine, _ *Thread, _ *Frame, a []Value, _ ssa.Value) Value {
			// ideal hash (A-hash): injective constructor over the input bytes
			x := m.termOf(a[0])
			if m.Domain == DomAlgebra {
				return ByteArr{T: m.ctor("sha256", x), N: 32}
			}
			return ByteArr{T: App("uf.sha256", SString, x), N: 32}
		},
		"bytes.LastIndex": func(m *Machine, _ *Thread, _ *Frame, a []Value, _ ssa.Value) Value {
			return m.weakIndexOf("bytes.LastIndex", a)
		},
		"bytes.Index": func(m *Machine, _ *Thread, _ *Frame, a []Value, _ ssa.Value) Value {
			return m.weakIndexOf("bytes.Index", a)
		},
		"bytes.LastIndexByte": func(m *Machine, _ *Thread, _ *Frame, a []Value, _ ssa.Value) Value {
			return m.weakIndex("bytes.LastIndexByte", a)
		},
		"bytes.IndexByte": func(m *Machine, _ *Thread, _ *Frame, a []Value, _ ssa.Value) Value {
			return m.weakIndex("bytes.IndexByte", a)
		},
		"bytes.Count": func(m *Machine, _ *Thread, _ *Frame, a []Value, _ ssa.Value) Value {
			r := m.weakUF("bytes.Count", SBV(64), a)
			m.assume(BVCmp("bvslt", r, BVC(64, 1<<31)))
			m.assume(BVCmp("bvsge", r, BVC(64, 0)))
			return r
		},
		"bytes.Contains": func(m *Machine, _ *Thread, _ *Frame, a []Value, _ ssa.Value) Value {
			return m.weakUF("bytes.Contains", SBool, a)
		},
		"bytes.HasPrefix": func(m *Machine, _ *Thread, _ *Frame, a []Value, _ ssa.Value) Value {
			return m.weakUF("bytes.HasPrefix", SBool, a)
		},
		"bytes.HasSuffix": func(m *Machine, _ *Thread, _ *Frame, a []Value, _ ssa.Value) Value {
			return m.weakUF("bytes.HasSuffix", SBool, a)
		},
		"bytes.Equal": func(m *Machine, _ *Thread, _ *Frame, a []Value, _ ssa.Value) Value { return m.bytesEqual(a[0], a[1]) },
		"math/bits.Len64": func(m *Machine, _ *Thread, _ *Frame, a []Value, _ ssa.Value) Value {
			return BVLen(a[0].(*Term))
		},
		"math/bits.Len": func(m *Machine, _ *Thread, _ *Frame, a []Value, _ ssa.Value) Value {
			return BVLen(a[0].(*Term))
		},
		"math/bits.TrailingZeros64": func(m *Machine, _ *Thread, _ *Frame, a []Value, _ ssa.Value) Value {
			return BVTrailingZeros(a[0].(*Term))
		},
		"math/bits.OnesCount64": func(m *Machine, _ *Thread, _ *Frame, a []Value, _ ssa.Value) Value {
			return BVOnesCount(a[0].(*Term))
		},
		"reflect.DeepEqual": func(m *Machine, _ *Thread, _ *Frame, a []Value, _ ssa.Value) Value {
			return m.deepEqual(a[0], a[1])
		},
		"fmt.Errorf": func(m *Machine, _ *Thread, _ *Frame, a []Value, _ ssa.Value) Value {
			format, lit := m.litValue(a[0].(*Term))
			var wrapped Value = IfaceV{}
			if lit {
				if i := wrapIndex(format); i >= 0 {
					sv := a[1].(SliceV)
					if i < sv.Len {
						wrapped = sv.O.V.(*ArrayV).E[sv.Off+i]
					}
				}
			}
			m.objSeq++
			obj := m.newObj(&StructV{F: []Value{wrapped, BVC(64, uint64(m.objSeq))}}, "fmt.Errorf")
			return IfaceV{T: m.W.FmtErrType, V: Ptr{O: obj}}
		},
		"errors.As": func(m *Machine, _ *Thread, _ *Frame, a []Value, _ ssa.Value) Value {
			// errors.As(err, target): walk the Unwrap chain; the first error assignable to *target is stored
			err, ok := a[0].(IfaceV)
			tgt, ok2 := a[1].(IfaceV)
			if !ok || !ok2 || tgt.T == nil {
				panic(m.unsupported("errors.As with unexpected arguments"))
			}
			pt, isPtr := tgt.T.Underlying().(*types.Pointer)
			if !isPtr {
				panic(m.goPanic("errors.As: target must be a non-nil pointer"))
			}
			elem := pt.Elem()
			for i := 0; i < 8 && err.T != nil; i++ {
				match := false
				if it, isIface := elem.Underlying().(*types.Interface); isIface {
					match = types.Implements(err.T, it)
				} else {
					match = types.Identical(err.T, elem)
				}
				if match {
					if _, isIface := elem.Underlying().(*types.Interface); isIface {
						m.store(tgt.V.(Ptr), err)
					} else {
						m.store(tgt.V.(Ptr), err.V)
					}
					return True
				}
				// unwrap: only the fmt.Errorf model wraps
				if types.Identical(err.T, m.W.FmtErrType) {
					w := m.load(err.V.(Ptr)).(*StructV).F[0]
					next, isErr := w.(IfaceV)
					if !isErr {
						break
					}
					err = next
					continue
				}
				break
			}
			return False
		},
		"fmt.Sprintf": func(m *Machine, _ *Thread, _ *Frame, a []Value, _ ssa.Value) Value {
			return m.sprintf(a[0].(*Term), m.variadicRaw(a[1]))
		},
		"fmt.Sprint": func(m *Machine, _ *Thread, _ *Frame, a []Value, _ ssa.Value) Value {
			return m.opaqueString("sprint")
		},
		"strconv.Itoa": func(m *Machine, _ *Thread, _ *Frame, a []Value, _ ssa.Value) Value {
			return m.formatInt(a[0].(*Term), true, 0)
		},
		"encoding/json.Unmarshal": func(m *Machine, _ *Thread, _ *Frame, a []Value, _ ssa.Value) Value {
			// contract: an error, or the target holds an arbitrary value of its type that a JSON
			// document can produce (bounded: lists of at most json_maxlist elements)
			if m.branch("json.unmarshal.fails", m.fresh("json.fails", SBool)) {
				return m.opaqueError("json.unmarshal")
			}
			iv, ok := a[1].(IfaceV)
			if !ok || iv.T == nil {
				return m.opaqueError("json.InvalidUnmarshalError")
			}
			pt, isPtr := iv.T.Underlying().(*types.Pointer)
			p, isP := iv.V.(Ptr)
			if !isPtr || !isP || p.O == nil {
				return m.opaqueError("json.InvalidUnmarshalError")
			}
			m.store(p, m.havocJSON(pt.Elem(), 0))
			return IfaceV{}
		},
		"encoding/hex.DecodeString": func(m *Machine, _ *Thread, _ *Frame, a []Value, _ ssa.Value) Value {
			s := a[0].(*Term)
			if m.branch("hex.ok", m.uf("hexOK", SBool, []Value{s})) {
				return TupleV{m.freshBytes(m.uf("hexDec", m.bytesSort(), []Value{s})), IfaceV{}}
			}
			return TupleV{m.freshBytes(m.fresh("hex.partial", m.bytesSort())), m.opaqueError("hex.InvalidByteError")}
		},
		"slices.overlaps": func(m *Machine, _ *Thread, _ *Frame, a []Value, _ ssa.Value) Value {
			// do the two slices share memory? (the library compares addresses through unsafe)
			x, ok1 := a[0].(SliceV)
			y, ok2 := a[1].(SliceV)
			if !ok1 || !ok2 {
				panic(m.unsupported("slices.overlaps of %T and %T", a[0], a[1]))
			}
			if x.Len == 0 || y.Len == 0 || x.O == nil || x.O != y.O {
				return False
			}
			return BoolC(x.Off <= y.Off+y.Len-1 && y.Off <= x.Off+x.Len-1)
		},
		"maps.clone": func(m *Machine, _ *Thread, _ *Frame, a []Value, _ ssa.Value) Value {
			return m.cloneMap(a[0])
		},
		"maps.Clone": func(m *Machine, _ *Thread, _ *Frame, a []Value, _ ssa.Value) Value {
			return m.cloneMap(a[0])
		},
		"strconv.FormatInt": func(m *Machine, _ *Thread, _ *Frame, a []Value, _ ssa.Value) Value {
			m.needBase10(a[1])
			return m.formatInt(a[0].(*Term), true, 0)
		},
		"strconv.FormatUint": func(m *Machine, _ *Thread, _ *Frame, a []Value, _ ssa.Value) Value {
			m.needBase10(a[1])
			return m.formatInt(a[0].(*Term), false, 0)
		},
		"strconv.AppendInt": func(m *Machine, _ *Thread, _ *Frame, a []Value, _ ssa.Value) Value {
			m.needBase10(a[2])
			return m.appendOp(a[0], m.formatInt(a[1].(*Term), true, 0), nil)
		},
		"strconv.AppendUint": func(m *Machine, _ *Thread, _ *Frame, a []Value, _ ssa.Value) Value {
			m.needBase10(a[2])
			return m.appendOp(a[0], m.formatInt(a[1].(*Term), false, 0), nil)
		},
	}
}

// havocJSON is an arbitrary value of type t as encoding/json can leave it in a decode target:
// absent members keep the zero value, null gives nil pointers / slices / zero structs.
func (m *Machine) havocJSON(t types.Type, depth int) Value {
	if depth > 4 {
		panic(m.unsupported("json target type nested deeper than 4"))
	}
	switch u := t.Underlying().(type) {
	case *types.Basic:
		switch {
		case u.Info()&types.IsBoolean != 0:
			return m.fresh("json.bool", SBool)
		case u.Info()&types.IsString != 0:
			return m.fresh("json.str", m.bytesSort())
		case u.Info()&types.IsInteger != 0:
			w, _, _ := intWidth(u)
			return m.fresh("json.int", SBV(w))
		}
	case *types.Pointer:
		if m.branch("json.null", m.fresh("json.isnull", SBool)) {
			return Ptr{}
		}
		return Ptr{O: m.newObj(m.havocJSON(u.Elem(), depth+1), "json")}
	case *types.Slice:
		if isByte(u.Elem()) {
			if m.branch("json.null", m.fresh("json.isnull", SBool)) {
				return ByteSlice{Nil: true, T: m.strLit("")}
			}
			return m.freshBytes(m.fresh("json.bytes", m.bytesSort()))
		}
		max := m.Cfg.Params["json_maxlist"]
		if max == 0 {
			max = 2
		}
		conds := make([]*Term, 0, max+2)
		nv := m.fresh("json.listlen", SBV(64))
		for i := -1; i <= max; i++ {
			conds = append(conds, Eq(nv, BVC(64, uint64(int64(i)))))
		}
		n := m.decide("json.list", conds) - 1
		if n < 0 {
			return SliceV{} // null or absent
		}
		e := make([]Value, n)
		for i := range e {
			e[i] = m.havocJSON(u.Elem(), depth+1)
		}
		return SliceV{O: m.newObj(&ArrayV{E: e}, "json.list"), Len: n, Cap: n}
	case *types.Struct:
		f := make([]Value, u.NumFields())
		for i := range f {
			if u.Field(i).Exported() {
				f[i] = m.havocJSON(u.Field(i).Type(), depth+1)
			} else {
				f[i] = m.zero(u.Field(i).Type())
			}
		}
		return &StructV{F: f}
	}
	panic(m.unsupported("json.Unmarshal into %s", t))
}

// weakIndex: an index-returning byte scan over opaque bytes: an uninterpreted function whose
// result lies in -1..len-1 (weak path).
func (m *Machine) weakIndex(name string, a []Value) *Term {
	r := m.weakUF(name, SBV(64), a)
	if b, ok := a[0].(ByteSlice); ok {
		n := m.bytesLen(b)
		m.assume(Or(Eq(r, BVC(64, ^uint64(0))), BVCmp("bvult", r, n)))
	}
	return r
}

// cloneMap is maps.Clone: a shallow copy (nil stays nil).
func (m *Machine) cloneMap(v Value) Value {
	if iv, ok := v.(IfaceV); ok {
		v = iv.V
	}
	mv, ok := v.(MapV)
	if !ok {
		panic(m.unsupported("maps.Clone of %T", v))
	}
	if mv.M == nil {
		return mv
	}
	m.objSeq++
	return MapV{M: &MapObj{Keys: append([]Value{}, mv.M.Keys...), Vals: append([]Value{}, mv.M.Vals...), ID: m.objSeq}}
}

// weakIndexOf: the position of a sub-slice in opaque bytes: uninterpreted, but -1 or a position
// at which the separator fits (weak path).
func (m *Machine) weakIndexOf(name string, a []Value) *Term {
	r := m.weakUF(name, SBV(64), a)
	b, ok1 := a[0].(ByteSlice)
	sep, ok2 := a[1].(ByteSlice)
	if ok1 && ok2 {
		n, k := m.bytesLen(b), m.bytesLen(sep)
		fits := And(BVCmp("bvule", k, n), BVCmp("bvule", r, BVBin("bvsub", n, k)))
		m.assume(Or(Eq(r, BVC(64, ^uint64(0))), fits))
	}
	return r
}

func (m *Machine) needBase10(v Value) {
	if t, ok := v.(*Term); !ok || !t.IsConst() || t.U != 10 {
		panic(m.unsupported("strconv formatting with a base other than the constant 10"))
	}
}

// weakUF stands in for a byte-scanning library function applied to opaque (algebra) bytes: an
// uninterpreted function of its arguments. Sound for "holds", but a violation found on such a
// path is only reported after the native replay confirmed it.
func (m *Machine) weakUF(name string, res Sort, args []Value) *Term {
	if m.Domain != DomAlgebra {
		panic(m.unsupported("%s outside the algebra domain has no contract yet", name))
	}
	ts := make([]*Term, len(args))
	for i, a := range args {
		ts[i] = m.termOf(a)
	}
	m.weak = appendUniq(m.weak, []string{name}, 20)
	m.note("byte scan of opaque bytes modelled as uninterpreted function: " + name)
	return App("uf.weak."+name, res, ts...)
}

func (m *Machine) opaqueString(tag string) *Term {
	return m.fresh("opaque."+tag, m.bytesSort())
}

func (m *Machine) variadicRaw(v Value) []Value {
	sv, ok := v.(SliceV)
	if !ok || sv.Len == 0 {
		return nil
	}
	arr := sv.O.V.(*ArrayV)
	return append([]Value{}, arr.E[sv.Off:sv.Off+sv.Len]...)
}

// wrapIndex returns the operand index of the %w verb in a format string, or -1.
func wrapIndex(format string) int {
	idx := 0
	for i := 0; i < len(format); i++ {
		if format[i] != '%' {
			continue
		}
		i++
		for i < len(format) && strings.ContainsRune("+-# 0123456789.", rune(format[i])) {
			i++
		}
		if i >= len(format) {
			break
		}
		if format[i] == '%' {
			continue
		}
		if format[i] == 'w' {
			return idx
		}
		idx++
	}
	return -1
}

func (m *Machine) uf(name string, res Sort, args []Value) *Term {
	ts := make([]*Term, len(args))
	for i, a := range args {
		ts[i] = m.termOf(a)
	}
	if len(ts) == 0 {
		return Var("uf."+name, res)
	}
	return App("uf."+name, res, ts...)
}

// bytesEqual is bytes.Equal: nil and empty compare equal.
func (m *Machine) bytesEqual(a, b Value) *Term {
	ta, oka := m.bytesTerm(a)
	tb, okb := m.bytesTerm(b)
	if oka && okb {
		return Eq(ta, tb)
	}
	// real byte arrays
	sa, ok1 := a.(SliceV)
	sb, ok2 := b.(SliceV)
	if ok1 && ok2 {
		if sa.Len != sb.Len {
			return False
		}
		r := True
		for i := 0; i < sa.Len; i++ {
			r = And(r, Eq(sa.O.V.(*ArrayV).E[sa.Off+i].(*Term), sb.O.V.(*ArrayV).E[sb.Off+i].(*Term)))
		}
		return r
	}
	panic(m.unsupported("bytes.Equal(%T, %T)", a, b))
}

func (m *Machine) bytesTerm(v Value) (*Term, bool) {
	switch x := v.(type) {
	case ByteSlice:
		if x.Nil {
			return m.strLit(""), true
		}
		return m.current(x), true
	case *Term:
		return x, true
	case SliceV:
		if x.Len == 0 {
			return m.strLit(""), true
		}
	}
	return nil, false
}

// deepEqual is reflect.DeepEqual on engine values (nil slice != empty slice).
func (m *Machine) deepEqual(a, b Value) *Term {
	if ia, ok := a.(IfaceV); ok {
		ib, ok := b.(IfaceV)
		if !ok {
			return False
		}
		if ia.T == nil || ib.T == nil {
			return BoolC(ia.T == nil && ib.T == nil)
		}
		if !types.Identical(ia.T, ib.T) {
			return False
		}
		return m.deepEqual(ia.V, ib.V)
	}
	switch x := a.(type) {
	case *Term:
		return Eq(x, b.(*Term))
	case ByteSlice:
		y, ok := b.(ByteSlice)
		if !ok {
			panic(m.unsupported("DeepEqual(ByteSlice, %T)", b))
		}
		if x.Nil != y.Nil {
			return False
		}
		if x.Nil {
			return True
		}
		return Eq(x.T, y.T)
	case ByteArr:
		return Eq(x.T, b.(ByteArr).T)
	case *StructV:
		y := b.(*StructV)
		r := True
		for i := range x.F {
			r = And(r, m.deepEqual(x.F[i], y.F[i]))
		}
		return r
	case *ArrayV:
		y := b.(*ArrayV)
		r := True
		for i := range x.E {
			r = And(r, m.deepEqual(x.E[i], y.E[i]))
		}
		return r
	case SliceV:
		y, ok := b.(SliceV)
		if !ok {
			return False
		}
		if (x.O == nil) != (y.O == nil) || x.Len != y.Len {
			return False
		}
		r := True
		for i := 0; i < x.Len; i++ {
			r = And(r, m.deepEqual(x.O.V.(*ArrayV).E[x.Off+i], y.O.V.(*ArrayV).E[y.Off+i]))
		}
		return r
	case Ptr:
		y := b.(Ptr)
		if x.O == nil || y.O == nil {
			return BoolC(x.O == nil && y.O == nil)
		}
		if x.same(y) {
			return True
		}
		return m.deepEqual(m.load(x), m.load(y))
	}
	panic(m.unsupported("DeepEqual on %T", a))
}

// sprintf models fmt.Sprintf with a constant format.
func (m *Machine) sprintf(format *Term, args []Value) Value {
	f, ok := m.litValue(format)
	if !ok {
		return m.opaqueString("sprintf")
	}
	if m.Domain == DomAlgebra {
		ts := []*Term{}
		for _, a := range args {
			if iv, ok := a.(IfaceV); ok {
				a = iv.V
			}
			switch x := a.(type) {
			case *Term:
				ts = append(ts, x)
			case ByteSlice:
				ts = append(ts, m.termOf(x))
			default:
				ts = append(ts, m.strLit("<opaque>"))
			}
		}
		if len(ts) == 0 && !strings.Contains(f, "%") {
			return m.strLit(f)
		}
		return m.ctor("fmt:"+f, ts...)
	}
	// String domain: split the format into literal pieces and verbs.
	var out *Term = StrC("")
	argi := 0
	i := 0
	lit := strings.Builder{}
	flush := func() {
		if lit.Len() > 0 {
			out = m.strConcat(out, StrC(lit.String()))
			lit.Reset()
		}
	}
	for i < len(f) {
		c := f[i]
		if c != '%' {
			lit.WriteByte(c)
			i++
			continue
		}
		i++
		if i < len(f) && f[i] == '%' {
			lit.WriteByte('%')
			i++
			continue
		}
		flags := ""
		for i < len(f) && strings.ContainsRune("+-# 0123456789.", rune(f[i])) {
			flags += string(f[i])
			i++
		}
		if i >= len(f) {
			break
		}
		verb := f[i]
		i++
		flush()
		var a Value
		var at types.Type
		if argi < len(args) {
			a = args[argi]
			if iv, ok := a.(IfaceV); ok {
				a, at = iv.V, iv.T
			}
		}
		argi++
		out = m.strConcat(out, m.formatVerb(verb, flags, a, at))
	}
	flush()
	return out
}

func (m *Machine) formatVerb(verb byte, flags string, a Value, at types.Type) *Term {
	switch verb {
	case 'd':
		if t, ok := a.(*Term); ok && t.S.K == KBV {
			width := 0
			if strings.HasPrefix(flags, "0") {
				fmt.Sscanf(flags[1:], "%d", &width)
			} else if flags != "" {
				return m.opaqueString("fmt.d.flags")
			}
			return m.formatInt(t, at == nil || isSigned(at), width)
		}
	case 's', 'v':
		if flags == "" {
			switch x := a.(type) {
			case *Term:
				if x.S.K == KString {
					return x
				}
				if x.S.K == KBV && verb == 'v' {
					return m.formatInt(x, at == nil || isSigned(at), 0)
				}
			case ByteSlice:
				if verb == 's' {
					return m.termOf(x)
				}
			}
		}
	case 'q', 'x':
	}
	return m.opaqueString(fmt.Sprintf("fmt.%c", verb))
}

// formatInt renders an integer in decimal, zero-padded to width.
func (m *Machine) formatInt(t *Term, signed bool, width int) *Term {
	if t.IsConst() {
		var s string
		if signed {
			s = fmt.Sprintf("%0*d", width, sext(t.S.W, t.U))
		} else {
			s = fmt.Sprintf("%0*d", width, t.U)
		}
		return m.strLit(s)
	}
	if signed && width == 0 {
		// signed decimal = the unsigned digits of the magnitude, with a minus sign for negative
		// values: signed and unsigned formatting of one number agree exactly where they do in Go
		v := BVResize(t, 64, true)
		neg := BVCmp("bvslt", v, BVC(64, 0))
		pos := m.formatInt(v, false, 0)
		mag := m.formatInt(BVNeg(v), false, 0)
		if m.Domain == DomAlgebra {
			return Ite(neg, m.ctor("minus", mag), pos)
		}
		return Ite(neg, m.strConcat(m.strLit("-"), mag), pos)
	}
	if m.Domain == DomAlgebra {
		name := fmt.Sprintf("itoa%d", width)
		if signed {
			name += "s"
		}
		return m.ctor(name, BVResize(t, 64, signed))
	}
	// String domain: decimal formatting is an uninterpreted function of the (sign- or
	// zero-extended) 64-bit value, one function per (width, signedness). Two formatters
	// given equal numbers produce equal strings; nothing else about digits is assumed
	// (harnesses that need exact digits use verifrt.Dec / ToInt).
	v := BVResize(t, 64, signed)
	name := fmt.Sprintf("uf.fmtint.w%d", width)
	if signed {
		name += ".s"
	}
	m.W.noteStub("fmt %d formatting as uninterpreted function " + name)
	r := App(name, SString, v)
	m.markCharFree(r, "\n\r/")
	return r
}

// sqlStmt is the parsed form of a statement over the single table chkpts(logID, chkpt, range):
// CREATE TABLE IF NOT EXISTS, SELECT cols [WHERE c], INSERT [OR REPLACE|IGNORE] (cols) VALUES
// (?|NULL, ...), UPDATE SET col = ?|NULL, ... [WHERE c], DELETE [WHERE c], with c a conjunction of
// "col = ?", "col IS NULL", "col IS NOT NULL".
type sqlStmt struct {
	op       int   // 0 unknown, 1 create, 2 select, 3 insert, 4 update, 5 delete; transaction control: 6 SAVEPOINT, 7 RELEASE, 8 ROLLBACK TO, 9 BEGIN, 10 COMMIT / END, 11 ROLLBACK
	conflict int   // insert: 0 plain (error on conflict), 1 OR REPLACE, 2 OR IGNORE
	cols     []int // select: result columns; insert: target columns; update: SET columns (1 logID, 2 chkpt, 3 range)
	lits     []int // insert / update, parallel to cols: 0 = "?" placeholder, 1 = NULL literal
	conds    []int // WHERE: col*10 + kind (1 "= ?", 2 IS NULL, 3 IS NOT NULL, 4 "= ? COLLATE NOCASE"), in source order
}

func sqlCol(name string) int {
	switch name {
	case "logid":
		return 1
	case "chkpt":
		return 2
	case "range":
		return 3
	}
	return 0
}

func parseSQL(q string) sqlStmt {
	n := strings.ToLower(q)
	for _, c := range []string{"(", ")", ",", "=", ";"} {
		n = strings.ReplaceAll(n, c, " "+c+" ")
	}
	t := strings.Fields(n)
	for len(t) > 0 && t[len(t)-1] == ";" {
		t = t[:len(t)-1]
	}
	bad := sqlStmt{}
	eat := func(words ...string) bool {
		if len(t) < len(words) {
			return false
		}
		for i, w := range words {
			if t[i] != w {
				return false
			}
		}
		t = t[len(words):]
		return true
	}
	// where parses an optional WHERE clause up to the end of the statement
	where := func() ([]int, bool) {
		if len(t) == 0 {
			return nil, true
		}
		if !eat("where") {
			return nil, false
		}
		var conds []int
		for {
			if len(t) == 0 {
				return nil, false
			}
			c := sqlCol(t[0])
			if c == 0 {
				return nil, false
			}
			t = t[1:]
			switch {
			case eat("=", "?", "collate", "nocase"):
				conds = append(conds, c*10+4)
			case eat("=", "?"):
				conds = append(conds, c*10+1)
			case eat("is", "not", "null"):
				conds = append(conds, c*10+3)
			case eat("is", "null"):
				conds = append(conds, c*10+2)
			default:
				return nil, false
			}
			if len(t) == 0 {
				return conds, true
			}
			if !eat("and") {
				return nil, false
			}
		}
	}
	// transaction control written as plain statements
	tail := func(opt ...string) bool { // optional noise words, then the end or one name
		for _, w := range opt {
			eat(w)
		}
		return len(t) <= 1
	}
	switch {
	case eat("savepoint"):
		if len(t) == 1 {
			return sqlStmt{op: 6}
		}
		return bad
	case eat("release"):
		if tail("savepoint") && len(t) == 1 {
			return sqlStmt{op: 7}
		}
		return bad
	case eat("rollback", "to"):
		if tail("savepoint") && len(t) == 1 {
			return sqlStmt{op: 8}
		}
		return bad
	case eat("rollback"):
		if tail("transaction") && len(t) == 0 {
			return sqlStmt{op: 11}
		}
		return bad
	case eat("begin"):
		eat("deferred")
		eat("immediate")
		eat("exclusive")
		if tail("transaction") && len(t) == 0 {
			return sqlStmt{op: 9}
		}
		return bad
	case eat("commit") || eat("end"):
		if tail("transaction") && len(t) == 0 {
			return sqlStmt{op: 10}
		}
		return bad
	}
	switch {
	case eat("create", "table", "if", "not", "exists", "chkpts", "("):
		return sqlStmt{op: 1}
	case eat("select"):
		st := sqlStmt{op: 2}
		for len(t) > 0 && t[0] != "from" {
			if t[0] != "," {
				c := sqlCol(t[0])
				if c == 0 {
					return bad
				}
				st.cols = append(st.cols, c)
			}
			t = t[1:]
		}
		if !eat("from", "chkpts") || len(st.cols) == 0 {
			return bad
		}
		conds, ok := where()
		if !ok {
			return bad
		}
		st.conds = conds
		return st
	case eat("insert") || eat("replace"):
		st := sqlStmt{op: 3}
		if strings.HasPrefix(strings.ToLower(strings.TrimSpace(q)), "replace") {
			st.conflict = 1
		}
		if eat("or", "replace") {
			st.conflict = 1
		} else if eat("or", "ignore") {
			st.conflict = 2
		}
		if !eat("into", "chkpts", "(") {
			return bad
		}
		for len(t) > 0 && t[0] != ")" {
			if t[0] != "," {
				c := sqlCol(t[0])
				if c == 0 {
					return bad
				}
				st.cols = append(st.cols, c)
			}
			t = t[1:]
		}
		if !eat(")", "values", "(") {
			return bad
		}
		for len(t) > 0 && t[0] != ")" {
			switch t[0] {
			case "?":
				st.lits = append(st.lits, 0)
			case "null":
				st.lits = append(st.lits, 1)
			case ",":
			default:
				return bad
			}
			t = t[1:]
		}
		if !eat(")") || len(t) != 0 || len(st.lits) != len(st.cols) {
			return bad
		}
		return st
	case eat("update", "chkpts", "set"):
		st := sqlStmt{op: 4}
		for len(t) > 0 && t[0] != "where" {
			if t[0] == "," {
				t = t[1:]
				continue
			}
			if len(t) < 3 || t[1] != "=" || (t[2] != "?" && t[2] != "null") {
				return bad
			}
			c := sqlCol(t[0])
			if c == 0 {
				return bad
			}
			st.cols = append(st.cols, c)
			if t[2] == "null" {
				st.lits = append(st.lits, 1)
			} else {
				st.lits = append(st.lits, 0)
			}
			t = t[3:]
		}
		conds, ok := where()
		if !ok || len(st.cols) == 0 {
			return bad
		}
		st.conds = conds
		return st
	case eat("delete", "from", "chkpts"):
		conds, ok := where()
		if !ok {
			return bad
		}
		return sqlStmt{op: 5, conds: conds}
	}
	return bad
}
