package sym

import (
	"fmt"
	"go/types"
	"strings"

	"golang.org/x/tools/go/ssa"
)

func (m *Machine) builtin(f *Frame, b *ssa.Builtin, args []Value, site *ssa.CallCommon) Value {
	switch b.Name() {
	case "len":
		return m.lenOf(args[0])
	case "cap":
		switch a := args[0].(type) {
		case SliceV:
			return BVC(64, uint64(a.Cap))
		case ByteSlice:
			return m.bytesLen(a)
		case *ArrayV:
			return BVC(64, uint64(len(a.E)))
		}
		panic(m.unsupported("cap of %T", args[0]))
	case "append":
		return m.appendOp(args[0], args[1], site)
	case "copy":
		return m.copyOp(args[0], args[1])
	case "delete":
		m.mapDelete(args[0], args[1])
		return nil
	case "print", "println":
		return nil
	case "ssa:wrapnilchk":
		if p, ok := args[0].(Ptr); ok && p.O == nil {
			panic(m.goPanic("value method called using nil pointer"))
		}
		return args[0]
	case "min", "max":
		r := args[0].(*Term)
		signed := isSigned(site.Args[0].Type())
		for _, a := range args[1:] {
			t := a.(*Term)
			var c *Term
			op := "bvult"
			if signed {
				op = "bvslt"
			}
			if b.Name() == "min" {
				c = BVCmp(op, t, r)
			} else {
				c = BVCmp(op, r, t)
			}
			r = Ite(c, t, r)
		}
		return r
	}
	panic(m.unsupported("builtin %s", b.Name()))
}

func (m *Machine) lenOf(v Value) Value {
	switch a := v.(type) {
	case SliceV:
		return BVC(64, uint64(a.Len))
	case ByteSlice:
		return m.bytesLen(a)
	case *Term:
		return m.strLen(a)
	case MapV:
		if a.M == nil {
			return BVC(64, 0)
		}
		return BVC(64, uint64(len(a.M.Keys)))
	case *ArrayV:
		return BVC(64, uint64(len(a.E)))
	case ByteArr:
		return BVC(64, uint64(a.N))
	case Ptr:
		x := m.load(a)
		return m.lenOf(x)
	}
	panic(m.unsupported("len of %T", v))
}

func (m *Machine) appendOp(s, t Value, site *ssa.CallCommon) Value {
	// []byte forms
	if bs, ok := s.(ByteSlice); ok {
		if bs.Resliced {
			if tt, isBS := t.(ByteSlice); !isBS || !(tt.Nil || m.isEmptyLit(tt.T)) {
				panic(m.unsupported("append onto a re-sliced opaque []byte: the write may go through to a backing array shared with other values, which the opaque-bytes domain does not track"))
			}
		}
		switch tt := t.(type) {
		case ByteSlice:
			if tt.Nil || m.isEmptyLit(tt.T) {
				return bs
			}
			if bs.Nil || m.isEmptyLit(bs.T) {
				return ByteSlice{T: tt.T}
			}
			return ByteSlice{T: m.strConcat(bs.T, tt.T)}
		case *Term: // append([]byte, string...)
			if bs.Nil || m.isEmptyLit(bs.T) {
				return ByteSlice{T: tt}
			}
			return ByteSlice{T: m.strConcat(bs.T, tt)}
		case SliceV:
			if tt.Len == 0 {
				return bs
			}
			if bs.Nil || m.isEmptyLit(bs.T) {
				// copy into a fresh array
				return m.appendOp(SliceV{}, tt, site)
			}
		}
		panic(m.unsupported("append(%T, %T)", s, t))
	}
	sv, ok := s.(SliceV)
	if !ok {
		panic(m.unsupported("append to %T", s))
	}
	var elems []Value
	switch tt := t.(type) {
	case SliceV:
		if tt.Len > 0 {
			arr := tt.O.V.(*ArrayV)
			elems = append(elems, arr.E[tt.Off:tt.Off+tt.Len]...)
		}
	case ByteSlice:
		if tt.Nil || m.isEmptyLit(tt.T) {
			return sv
		}
		panic(m.unsupported("append of opaque bytes to a byte array slice"))
	default:
		panic(m.unsupported("append(%T, %T)", s, t))
	}
	if len(elems) == 0 {
		return sv
	}
	need := sv.Len + len(elems)
	if sv.O != nil && need <= sv.Cap {
		arr := sv.O.V.(*ArrayV)
		ne := make([]Value, len(arr.E))
		copy(ne, arr.E)
		copy(ne[sv.Off+sv.Len:], elems)
		sv.O.V = &ArrayV{E: ne}
		return SliceV{O: sv.O, Off: sv.Off, Len: need, Cap: sv.Cap}
	}
	ncap := 2 * sv.Cap
	if ncap < need {
		ncap = need
	}
	if ncap > m.Cfg.MaxAlloc {
		panic(m.unsupported("append grows beyond %d elements", m.Cfg.MaxAlloc))
	}
	ne := make([]Value, ncap)
	if sv.O != nil {
		arr := sv.O.V.(*ArrayV)
		copy(ne, arr.E[sv.Off:sv.Off+sv.Len])
	}
	copy(ne[sv.Len:], elems)
	var z Value
	if site != nil {
		if st, ok := site.Args[0].Type().Underlying().(*types.Slice); ok {
			z = m.zero(st.Elem())
		}
	}
	for i := need; i < ncap; i++ {
		ne[i] = z
	}
	return SliceV{O: m.newObj(&ArrayV{E: ne}, "append"), Len: need, Cap: ncap}
}

func (m *Machine) isEmptyLit(t *Term) bool {
	s, ok := m.litValue(t)
	return ok && s == ""
}

func (m *Machine) copyOp(dst, src Value) Value {
	switch d := dst.(type) {
	case SliceV:
		var elems []Value
		switch s := src.(type) {
		case SliceV:
			if s.Len > 0 {
				elems = s.O.V.(*ArrayV).E[s.Off : s.Off+s.Len]
			}
		case *Term:
			c, ok := m.litValue(s)
			if !ok {
				panic(m.unsupported("copy from symbolic string into byte array"))
			}
			for i := 0; i < len(c); i++ {
				elems = append(elems, BVC(8, uint64(c[i])))
			}
		case ByteSlice:
			if !s.Nil && !m.isEmptyLit(s.T) {
				panic(m.unsupported("copy from opaque bytes into byte array"))
			}
		default:
			panic(m.unsupported("copy(%T, %T)", dst, src))
		}
		n := len(elems)
		if d.Len < n {
			n = d.Len
		}
		if n > 0 {
			arr := d.O.V.(*ArrayV)
			ne := make([]Value, len(arr.E))
			copy(ne, arr.E)
			// snapshot source first (overlap safe)
			tmp := make([]Value, n)
			copy(tmp, elems[:n])
			copy(ne[d.Off:], tmp)
			d.O.V = &ArrayV{E: ne}
		}
		return BVC(64, uint64(n))
	case ByteSlice:
		if d.Back == nil {
			panic(m.unsupported("copy into opaque []byte"))
		}
		arr := m.load(*d.Back).(ByteArr)
		var st *Term
		var sl *Term
		switch s := src.(type) {
		case ByteSlice:
			st = s.T
			if s.Nil {
				st = m.strLit("")
			}
			sl = m.bytesLen(s)
		case *Term:
			st = s
			sl = m.strLen(s)
		default:
			panic(m.unsupported("copy(%T, %T)", dst, src))
		}
		n := BVC(64, uint64(arr.N))
		exact := Eq(sl, n)
		longer := BVCmp("bvugt", sl, n)
		// exact: whole; longer: prefix; shorter: src padded with the old tail
		padded := App(fmt.Sprintf("overlay%d", arr.N), SBytes, arr.T, st)
		nt := Ite(exact, st, Ite(longer, m.prefixN(st, arr.N), padded))
		m.store(*d.Back, ByteArr{T: nt, N: arr.N})
		return Ite(longer, n, sl)
	}
	panic(m.unsupported("copy into %T", dst))
}

// ---------- helpers for intrinsics ----------

func (m *Machine) litArg(v Value, what string) string {
	t, ok := v.(*Term)
	if !ok {
		panic(m.unsupported("%s must be a string, got %T", what, v))
	}
	s, ok := m.litValue(t)
	if !ok {
		panic(m.unsupported("%s must be a constant string", what))
	}
	return s
}

func (m *Machine) fresh(name string, s Sort) *Term {
	n := m.varSeq[name]
	m.varSeq[name] = n + 1
	full := name
	if n > 0 {
		full = fmt.Sprintf("%s#%d", name, n+1)
	}
	t := Var(full, s)
	m.named = append(m.named, namedTerm{full, t})
	return t
}

func (m *Machine) bytesSort() Sort {
	if m.Domain == DomAlgebra {
		return SBytes
	}
	return SString
}

// variadicArgs unpacks a ...any slice value into engine values (interfaces unwrapped).
func (m *Machine) variadicArgs(v Value) []Value {
	sv, ok := v.(SliceV)
	if !ok {
		panic(m.unsupported("variadic argument list is %T", v))
	}
	if sv.Len == 0 {
		return nil
	}
	arr := sv.O.V.(*ArrayV)
	out := make([]Value, sv.Len)
	for i := 0; i < sv.Len; i++ {
		e := arr.E[sv.Off+i]
		if iv, ok := e.(IfaceV); ok {
			e = iv.V
		}
		out[i] = e
	}
	return out
}

// termOf flattens a value to a single SMT term for UF / constructor arguments.
func (m *Machine) termOf(v Value) *Term {
	switch x := v.(type) {
	case *Term:
		return x
	case ByteSlice:
		if x.Nil {
			return m.strLit("")
		}
		return m.current(x)
	case ByteArr:
		return x.T
	case IfaceV:
		return m.termOf(x.V)
	}
	panic(m.unsupported("cannot pass %T to an uninterpreted function", v))
}

func sanitize(s string) string {
	return strings.Map(func(r rune) rune {
		if r >= 'a' && r <= 'z' || r >= 'A' && r <= 'Z' || r >= '0' && r <= '9' || r == '_' || r == '.' {
			return r
		}
		return '_'
	}, s)
}
