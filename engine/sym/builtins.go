package sym

import (
	"fmt"
	"go/types"
	"sort"
	"strings"

	"golang.org/x/tools/go/ssa"
)

func (m *Machine) builtin(f *Frame, b *ssa.Builtin, args []Value, site *ssa.CallCommon) Value {
	switch b.Name() {
	case "len":
		return m.lenOf(args[0])
	case "cap":
		switch a := args[0].(type) {
		case SliceV:
			return BVC(64, uint64(a.Cap))
		case ByteSlice:
			return m.bytesLen(a)
		case *ArrayV:
			return BVC(64, uint64(len(a.E)))
		}
		panic(m.unsupported("cap of %T", args[0]))
	case "append":
		return m.appendOp(args[0], args[1], site)
	case "copy":
		return m.copyOp(args[0], args[1])
	case "delete":
		m.mapDelete(args[0], args[1])
		return nil
	case "print", "println":
		return nil
	case "ssa:wrapnilchk":
		if p, ok := args[0].(Ptr); ok && p.O == nil {
			panic(m.goPanic("value method called using nil pointer"))
		}
		return args[0]
	case "min", "max":
		r := args[0].(*Term)
		signed := isSigned(site.Args[0].Type())
		for _, a := range args[1:] {
			t := a.(*Term)
			var c *Term
			op := "bvult"
			if signed {
				op = "bvslt"
			}
			if b.Name() == "min" {
				c = BVCmp(op, t, r)
			} else {
				c = BVCmp(op, r, t)
			}
			r = Ite(c, t, r)
		}
		return r
	}
	panic(m.unsupported("builtin %s", b.Name()))
}

func (m *Machine) lenOf(v Value) Value {
	switch a := v.(type) {
	case SliceV:
		return BVC(64, uint64(a.Len))
	case ByteSlice:
		return m.bytesLen(a)
	case *Term:
		return m.strLen(a)
	case MapV:
		if a.M == nil {
			return BVC(64, 0)
		}
		return BVC(64, uint64(len(a.M.Keys)))
	case *ArrayV:
		return BVC(64, uint64(len(a.E)))
	case ByteArr:
		return BVC(64, uint64(a.N))
	case Ptr:
		x := m.load(a)
		return m.lenOf(x)
	}
	panic(m.unsupported("len of %T", v))
}

func (m *Machine) appendOp(s, t Value, site *ssa.CallCommon) Value {
	// []byte forms
	if bs, ok := s.(ByteSlice); ok {
		if bs.Resliced {
			var add *Term
			switch tt := t.(type) {
			case ByteSlice:
				if tt.Nil || m.isEmptyLit(tt.T) {
					return bs
				}
				add = m.current(tt)
			case *Term:
				if m.isEmptyLit(tt) {
					return bs
				}
				add = tt
			}
			if add == nil || bs.Buf == nil || !bs.AtStart {
				panic(m.unsupported("append onto a re-sliced opaque []byte that is not a prefix x[:k] of a slice whose allocation the engine saw: the write may go through to a backing array shared with other values"))
			}
			return m.appendThrough(bs, add)
		}
		switch tt := t.(type) {
		case ByteSlice:
			if tt.Nil || m.isEmptyLit(tt.T) {
				return bs
			}
			if bs.Nil || m.isEmptyLit(bs.T) {
				return m.freshBytes(tt.T)
			}
			return m.freshBytes(m.strConcat(bs.T, tt.T))
		case *Term: // append([]byte, string...)
			if bs.Nil || m.isEmptyLit(bs.T) {
				return m.freshBytes(tt)
			}
			return m.freshBytes(m.strConcat(bs.T, tt))
		case SliceV:
			if tt.Len == 0 {
				return bs
			}
			// constant bytes (append(b, '\n')): a literal
			if lit, ok := constBytes(tt); ok {
				return m.appendOp(bs, m.strLit(lit), site)
			}
			if bs.Nil || m.isEmptyLit(bs.T) {
				// copy into a fresh array
				return m.appendOp(SliceV{}, tt, site)
			}
		}
		panic(m.unsupported("append(%T, %T)", s, t))
	}
	sv, ok := s.(SliceV)
	if !ok {
		panic(m.unsupported("append to %T", s))
	}
	var elems []Value
	switch tt := t.(type) {
	case SliceV:
		if tt.Len > 0 {
			arr := tt.O.V.(*ArrayV)
			elems = append(elems, arr.E[tt.Off:tt.Off+tt.Len]...)
		}
	case ByteSlice:
		if tt.Nil || m.isEmptyLit(tt.T) {
			return sv
		}
		panic(m.unsupported("append of opaque bytes to a byte array slice"))
	default:
		panic(m.unsupported("append(%T, %T)", s, t))
	}
	if len(elems) == 0 {
		return sv
	}
	need := sv.Len + len(elems)
	if sv.O != nil && need <= sv.Cap {
		arr := sv.O.V.(*ArrayV)
		ne := make([]Value, len(arr.E))
		copy(ne, arr.E)
		copy(ne[sv.Off+sv.Len:], elems)
		sv.O.V = &ArrayV{E: ne}
		return SliceV{O: sv.O, Off: sv.Off, Len: need, Cap: sv.Cap}
	}
	ncap := 2 * sv.Cap
	if ncap < need {
		ncap = need
	}
	if ncap > m.Cfg.MaxAlloc {
		panic(m.unsupported("append grows beyond %d elements", m.Cfg.MaxAlloc))
	}
	ne := make([]Value, ncap)
	if sv.O != nil {
		arr := sv.O.V.(*ArrayV)
		copy(ne, arr.E[sv.Off:sv.Off+sv.Len])
	}
	copy(ne[sv.Len:], elems)
	var z Value
	if site != nil {
		if st, ok := site.Args[0].Type().Underlying().(*types.Slice); ok {
			z = m.zero(st.Elem())
		}
	}
	for i := need; i < ncap; i++ {
		ne[i] = z
	}
	return SliceV{O: m.newObj(&ArrayV{E: ne}, "append"), Len: need, Cap: ncap}
}

// freshBytes is an opaque []byte in a backing array of its own, allocated now.
func (m *Machine) freshBytes(t *Term) ByteSlice {
	m.objSeq++
	id := m.objSeq
	return ByteSlice{T: t, Buf: &byteBuf{id: id, born: t}, AtStart: true}
}

// appendThrough is append(x[:0], add...) where x's backing array is known. Go writes into that
// array when it is large enough - every other live slice of the array then shows the new
// bytes - and allocates a new one otherwise. The capacity is the allocator's choice: both cases
// are explored. Other slices of the array are rewritten in place wherever they live (heap walk).
func (m *Machine) appendThrough(s ByteSlice, add *Term) Value {
	n := m.strLen(add)
	p := m.strLen(s.T) // the prefix that is kept (0 for x[:0])
	if s.Buf.cap == nil {
		// the capacity is the allocator's choice: anything not below the length allocated
		s.Buf.cap = m.fresh(fmt.Sprintf("cap.%d", s.Buf.id), SBV(64))
		m.assume(BVCmp("bvule", m.strLen(s.Buf.born), s.Buf.cap))
		m.assume(BVCmp("bvult", s.Buf.cap, BVC(64, 1<<40)))
	}
	res := add
	if !m.isEmptyLit(s.T) {
		res = m.strConcat(s.T, add)
	}
	if !m.branch("append.fits-backing-array", BVCmp("bvule", BVBin("bvadd", p, n), s.Buf.cap)) {
		return m.freshBytes(res)
	}
	m.note("append(x[:k], ...) wrote through a shared backing array")
	buf := s.Buf
	whole := m.isEmptyLit(s.T)
	// phase 1: the distinct live slices of this array, in a deterministic order
	var live []ByteSlice
	m.walkValues(func(v Value) Value {
		y, ok := v.(ByteSlice)
		if !ok || y.Buf != buf || y.Nil || m.isEmptyLit(y.T) || structEq(y.T, add, 50) || structEq(y.T, s.T, 50) || structEq(y.T, res, 50) {
			return v
		}
		if !y.AtStart {
			panic(m.unsupported("write through a backing array that also has a slice not starting at its first byte"))
		}
		for _, o := range live {
			if structEq(o.T, y.T, 50) {
				return v
			}
		}
		live = append(live, y)
		return v
	})
	sort.SliceStable(live, func(i, j int) bool { return live[i].T.Debug() < live[j].T.Debug() })
	// phase 2: what each of them shows afterwards
	repl := make([]*Term, len(live))
	for i, y := range live {
		ly := m.strLen(y.T)
		switch {
		case whole && m.branch("append.overwrites-whole-alias", Eq(ly, n)):
			repl[i] = add
		case m.Domain == DomString:
			// bytes [p, p+n) of the array change: an alias ending before p is untouched, one ending
			// inside the written range shows a prefix of the new bytes, a longer one keeps its tail
			end := BVBin("bvadd", p, n)
			untouched := BVCmp("bvule", ly, p)
			longer := BVCmp("bvugt", ly, end)
			head := m.strSlice(y.T, nil, p)
			repl[i] = Ite(untouched, y.T, Ite(longer,
				m.strConcat(m.strConcat(head, add), m.strSlice(y.T, end, nil)),
				m.strConcat(head, m.strSlice(add, nil, BVBin("bvsub", ly, p)))))
		default:
			m.weak = appendUniq(m.weak, []string{"bytes of a slice partly overwritten through a shared backing array (lengths differ) are an unconstrained value in the algebra domain"}, 20)
			nt := m.fresh("clobbered.bytes", y.T.S)
			m.assume(Eq(m.strLen(nt), ly))
			repl[i] = nt
		}
	}
	// phase 3: rewrite every copy wherever it lives
	m.walkValues(func(v Value) Value {
		y, ok := v.(ByteSlice)
		if !ok || y.Buf != buf || y.Nil {
			return v
		}
		for i, o := range live {
			if structEq(o.T, y.T, 50) {
				y.T = repl[i]
				return y
			}
		}
		return v
	})
	return ByteSlice{T: res, Buf: buf, AtStart: true, Resliced: true}
}

// constBytes renders a slice of constant byte values as a Go string.
func constBytes(sv SliceV) (string, bool) {
	arr, ok := sv.O.V.(*ArrayV)
	if !ok {
		return "", false
	}
	b := make([]byte, 0, sv.Len)
	for _, e := range arr.E[sv.Off : sv.Off+sv.Len] {
		t, ok := e.(*Term)
		if !ok || !t.IsConst() || t.S.K != KBV || t.S.W != 8 {
			return "", false
		}
		b = append(b, byte(t.U))
	}
	return string(b), true
}

// storeByte is b[i] = v for an opaque []byte whose backing array is known: every live slice of
// the array that shows the same bytes shows the changed bytes afterwards (exact in the string
// domain; an unconstrained value on a weak path in the algebra domain).
func (m *Machine) storeByte(bc ByteCell, v *Term) {
	b := bc.B
	if b.Buf == nil || !b.AtStart {
		panic(m.unsupported("single-byte write into an opaque []byte of unknown provenance"))
	}
	old := m.current(b)
	var nt *Term
	if m.Domain == DomString {
		ch := mk("str.from_code", SString, intOfBV(BVResize(v, 64, false)))
		nt = m.strConcat(m.strConcat(m.strSlice(old, nil, bc.I), ch), m.strSlice(old, BVBin("bvadd", bc.I, BVC(64, 1)), nil))
	} else {
		m.weak = appendUniq(m.weak, []string{"single-byte write into opaque bytes (the result is an unconstrained value in the algebra domain)"}, 20)
		nt = m.fresh("clobbered.bytes", old.S)
		m.assume(Eq(m.strLen(nt), m.strLen(old)))
	}
	buf := b.Buf
	m.walkValues(func(x Value) Value {
		y, ok := x.(ByteSlice)
		if !ok || y.Buf != buf || y.Nil {
			return x
		}
		if !y.AtStart || !structEq(y.T, old, 50) {
			if m.isEmptyLit(y.T) {
				return x
			}
			panic(m.unsupported("single-byte write into a backing array that has slices of another extent"))
		}
		y.T = nt
		return y
	})
}

func (m *Machine) isEmptyLit(t *Term) bool {
	s, ok := m.litValue(t)
	return ok && s == ""
}

func (m *Machine) copyOp(dst, src Value) Value {
	switch d := dst.(type) {
	case SliceV:
		var elems []Value
		switch s := src.(type) {
		case SliceV:
			if s.Len > 0 {
				elems = s.O.V.(*ArrayV).E[s.Off : s.Off+s.Len]
			}
		case *Term:
			c, ok := m.litValue(s)
			if !ok {
				panic(m.unsupported("copy from symbolic string into byte array"))
			}
			for i := 0; i < len(c); i++ {
				elems = append(elems, BVC(8, uint64(c[i])))
			}
		case ByteSlice:
			if !s.Nil && !m.isEmptyLit(s.T) {
				panic(m.unsupported("copy from opaque bytes into byte array"))
			}
		default:
			panic(m.unsupported("copy(%T, %T)", dst, src))
		}
		n := len(elems)
		if d.Len < n {
			n = d.Len
		}
		if n > 0 {
			arr := d.O.V.(*ArrayV)
			ne := make([]Value, len(arr.E))
			copy(ne, arr.E)
			// snapshot source first (overlap safe)
			tmp := make([]Value, n)
			copy(tmp, elems[:n])
			copy(ne[d.Off:], tmp)
			d.O.V = &ArrayV{E: ne}
		}
		return BVC(64, uint64(n))
	case ByteSlice:
		if d.Back == nil {
			panic(m.unsupported("copy into opaque []byte"))
		}
		arr := m.load(*d.Back).(ByteArr)
		var st *Term
		var sl *Term
		switch s := src.(type) {
		case ByteSlice:
			st = s.T
			if s.Nil {
				st = m.strLit("")
			}
			sl = m.bytesLen(s)
		case *Term:
			st = s
			sl = m.strLen(s)
		default:
			panic(m.unsupported("copy(%T, %T)", dst, src))
		}
		n := BVC(64, uint64(arr.N))
		exact := Eq(sl, n)
		longer := BVCmp("bvugt", sl, n)
		// exact: whole; longer: prefix; shorter: src padded with the old tail
		padded := App(fmt.Sprintf("overlay%d", arr.N), SBytes, arr.T, st)
		nt := Ite(exact, st, Ite(longer, m.prefixN(st, arr.N), padded))
		m.store(*d.Back, ByteArr{T: nt, N: arr.N})
		return Ite(longer, n, sl)
	}
	panic(m.unsupported("copy into %T", dst))
}

// ---------- helpers for intrinsics ----------

func (m *Machine) litArg(v Value, what string) string {
	t, ok := v.(*Term)
	if !ok {
		panic(m.unsupported("%s must be a string, got %T", what, v))
	}
	s, ok := m.litValue(t)
	if !ok {
		panic(m.unsupported("%s must be a constant string", what))
	}
	return s
}

func (m *Machine) fresh(name string, s Sort) *Term {
	n := m.varSeq[name]
	m.varSeq[name] = n + 1
	full := name
	if n > 0 {
		full = fmt.Sprintf("%s#%d", name, n+1)
	}
	t := Var(full, s)
	m.named = append(m.named, namedTerm{full, t})
	return t
}

func (m *Machine) bytesSort() Sort {
	if m.Domain == DomAlgebra {
		return SBytes
	}
	return SString
}

// variadicArgs unpacks a ...any slice value into engine values (interfaces unwrapped).
func (m *Machine) variadicArgs(v Value) []Value {
	sv, ok := v.(SliceV)
	if !ok {
		panic(m.unsupported("variadic argument list is %T", v))
	}
	if sv.Len == 0 {
		return nil
	}
	arr := sv.O.V.(*ArrayV)
	out := make([]Value, sv.Len)
	for i := 0; i < sv.Len; i++ {
		e := arr.E[sv.Off+i]
		if iv, ok := e.(IfaceV); ok {
			e = iv.V
		}
		out[i] = e
	}
	return out
}

// termOf flattens a value to a single SMT term for UF / constructor arguments.
func (m *Machine) termOf(v Value) *Term {
	switch x := v.(type) {
	case *Term:
		return x
	case ByteSlice:
		if x.Nil {
			return m.strLit("")
		}
		return m.current(x)
	case ByteArr:
		return x.T
	case IfaceV:
		return m.termOf(x.V)
	}
	panic(m.unsupported("cannot pass %T to an uninterpreted function", v))
}

func sanitize(s string) string {
	return strings.Map(func(r rune) rune {
		if r >= 'a' && r <= 'z' || r >= 'A' && r <= 'Z' || r >= '0' && r <= '9' || r == '_' || r == '.' {
			return r
		}
		return '_'
	}, s)
}

// walkValues applies visit to every value reachable from the machine's roots (globals, every
// thread's frames, deferred calls, results), depth first in a deterministic order, replacing
// each value by what visit returns. Struct and array values are updated in place: every holder
// of the same value is a copy of the same slice headers.
func (m *Machine) walkValues(visit func(Value) Value) {
	seenObj := map[*Obj]bool{}
	seenMap := map[*MapObj]bool{}
	seenAgg := map[interface{}]bool{}
	var walk func(v Value) Value
	walk = func(v Value) Value {
		switch x := v.(type) {
		case nil:
			return v
		case ByteSlice:
			return visit(x)
		case Ptr:
			if x.O != nil && !seenObj[x.O] {
				seenObj[x.O] = true
				x.O.V = walk(x.O.V)
			}
			return v
		case SliceV:
			if x.O != nil && !seenObj[x.O] {
				seenObj[x.O] = true
				x.O.V = walk(x.O.V)
			}
			return v
		case *StructV:
			if x == nil || seenAgg[x] {
				return v
			}
			seenAgg[x] = true
			for i := range x.F {
				x.F[i] = walk(x.F[i])
			}
			return v
		case *ArrayV:
			if x == nil || seenAgg[x] {
				return v
			}
			seenAgg[x] = true
			for i := range x.E {
				x.E[i] = walk(x.E[i])
			}
			return v
		case IfaceV:
			x.V = walk(x.V)
			return x
		case *FuncV:
			if x == nil || seenAgg[x] {
				return v
			}
			seenAgg[x] = true
			for i := range x.FV {
				x.FV[i] = walk(x.FV[i])
			}
			return v
		case MapV:
			if x.M != nil && !seenMap[x.M] {
				seenMap[x.M] = true
				for i := range x.M.Keys {
					x.M.Keys[i] = walk(x.M.Keys[i])
					x.M.Vals[i] = walk(x.M.Vals[i])
				}
			}
			return v
		case TupleV:
			for i := range x {
				x[i] = walk(x[i])
			}
			return v
		case *IterV:
			if x == nil || seenAgg[x] {
				return v
			}
			seenAgg[x] = true
			for i := range x.keys {
				x.keys[i] = walk(x.keys[i])
			}
			for i := range x.vals {
				x.vals[i] = walk(x.vals[i])
			}
			return v
		case *LazyV:
			if x != nil && x.forced {
				x.V = walk(x.V)
			}
			return v
		}
		return v
	}
	var gs []*ssa.Global
	for g := range m.globals {
		gs = append(gs, g)
	}
	sort.Slice(gs, func(i, j int) bool { return gs[i].String() < gs[j].String() })
	for _, g := range gs {
		o := m.globals[g]
		if !seenObj[o] {
			seenObj[o] = true
			o.V = walk(o.V)
		}
	}
	for _, th := range m.threads {
		for _, f := range th.stack {
			var ks []ssa.Value
			for k := range f.env {
				ks = append(ks, k)
			}
			sort.Slice(ks, func(i, j int) bool {
				if ks[i].Name() != ks[j].Name() {
					return ks[i].Name() < ks[j].Name()
				}
				return ks[i].Pos() < ks[j].Pos()
			})
			for _, k := range ks {
				f.env[k] = walk(f.env[k])
			}
			for _, d := range f.defers {
				d.fn = walk(d.fn)
				for i := range d.args {
					d.args[i] = walk(d.args[i])
				}
			}
		}
		th.result = walk(th.result)
	}
}
