// Package sym is the wsym engine: a bounded symbolic executor for go/ssa that
// discharges branch feasibility, assertions and cover points with SMT solvers.
package sym

import (
	"fmt"
	"math/bits"
	"strconv"
	"strings"
)

// SortKind enumerates the SMT sorts used by the engine.
type SortKind int

const (
	KBool SortKind = iota
	KBV
	KBytes  // ideal-algebra byte strings (ADT)
	KBList  // list of Bytes (ADT helper)
	KString // SMT-LIB strings (String domain)
	KInt    // mathematical integers (only for str.len / from_int plumbing)
	KRe     // regular languages over strings
)

type Sort struct {
	K SortKind
	W int // width for KBV
}

var (
	SBool   = Sort{K: KBool}
	SBytes  = Sort{K: KBytes}
	SBList  = Sort{K: KBList}
	SString = Sort{K: KString}
	SInt    = Sort{K: KInt}
	SRe     = Sort{K: KRe}
)

func SBV(w int) Sort { return Sort{K: KBV, W: w} }

func (s Sort) SMT() string {
	switch s.K {
	case KBool:
		return "Bool"
	case KBV:
		return fmt.Sprintf("(_ BitVec %d)", s.W)
	case KBytes:
		return "Bytes"
	case KBList:
		return "BList"
	case KString:
		return "String"
	case KInt:
		return "Int"
	case KRe:
		return "RegLan"
	}
	panic("bad sort")
}

// Term is an immutable SMT term. Constants carry their value so the
// interpreter can fold and avoid solver calls on concrete control flow.
type Term struct {
	Op    string // "c" const, "v" var, otherwise an SMT operator / function name
	Args  []*Term
	S     Sort
	U     uint64 // BV / Int const value (Int: as int64)
	B     bool   // Bool const value
	Str   string // String const value, var name, or index text for indexed ops
	id    int
	depth int
}

func (t *Term) IsConst() bool { return t.Op == "c" }
func (t *Term) IsVar() bool   { return t.Op == "v" }

var (
	True  = &Term{Op: "c", S: SBool, B: true}
	False = &Term{Op: "c", S: SBool, B: false}
)

func BoolC(b bool) *Term {
	if b {
		return True
	}
	return False
}

func mask(w int) uint64 {
	if w >= 64 {
		return ^uint64(0)
	}
	return (uint64(1) << uint(w)) - 1
}

func BVC(w int, v uint64) *Term { return &Term{Op: "c", S: SBV(w), U: v & mask(w)} }
func IntC(v int64) *Term        { return &Term{Op: "c", S: SInt, U: uint64(v)} }
func StrC(s string) *Term       { return &Term{Op: "c", S: SString, Str: s} }
func Var(name string, s Sort) *Term {
	return &Term{Op: "v", S: s, Str: name}
}

func mk(op string, s Sort, args ...*Term) *Term {
	d := 0
	for _, a := range args {
		if a.depth > d {
			d = a.depth
		}
	}
	return &Term{Op: op, S: s, Args: args, depth: d + 1}
}

// App builds an application of an uninterpreted / prelude function.
func App(fn string, s Sort, args ...*Term) *Term { return mk(fn, s, args...) }

func sext(w int, v uint64) int64 {
	if w >= 64 {
		return int64(v)
	}
	if v&(1<<uint(w-1)) != 0 {
		return int64(v | ^mask(w))
	}
	return int64(v)
}

// ---------- boolean ----------

func Not(a *Term) *Term {
	if a.IsConst() {
		return BoolC(!a.B)
	}
	if a.Op == "not" {
		return a.Args[0]
	}
	return mk("not", SBool, a)
}

func And(a, b *Term) *Term {
	if a.IsConst() {
		if a.B {
			return b
		}
		return False
	}
	if b.IsConst() {
		if b.B {
			return a
		}
		return False
	}
	if a == b {
		return a
	}
	return mk("and", SBool, a, b)
}

func Or(a, b *Term) *Term {
	if a.IsConst() {
		if a.B {
			return True
		}
		return b
	}
	if b.IsConst() {
		if b.B {
			return True
		}
		return a
	}
	if a == b {
		return a
	}
	return mk("or", SBool, a, b)
}

func Implies(a, b *Term) *Term { return Or(Not(a), b) }

func Ite(c, a, b *Term) *Term {
	if c.IsConst() {
		if c.B {
			return a
		}
		return b
	}
	if a == b {
		return a
	}
	if a.S.K == KBool {
		if a.IsConst() && b.IsConst() {
			if a.B {
				return c
			}
			return Not(c)
		}
	}
	return mk("ite", a.S, c, a, b)
}

// structEq reports whether two terms are syntactically identical (bounded depth).
func structEq(a, b *Term, fuel int) bool {
	if a == b {
		return true
	}
	if fuel == 0 || a.Op != b.Op || a.S != b.S || len(a.Args) != len(b.Args) {
		return false
	}
	switch a.Op {
	case "c":
		return a.U == b.U && a.B == b.B && a.Str == b.Str
	case "v":
		return a.Str == b.Str
	}
	if a.Str != b.Str {
		return false
	}
	for i := range a.Args {
		if !structEq(a.Args[i], b.Args[i], fuel-1) {
			return false
		}
	}
	return true
}

// isCtor reports whether t is an application of an injective ADT constructor.
func isCtor(t *Term) bool {
	switch t.Op {
	case "Lit", "Cons", "OfU64", "BNil", "BCons":
		return true
	}
	return false
}

// ctorDistinct decides (conservatively) that two constructor terms can never be equal.
func ctorDistinct(a, b *Term, fuel int) bool {
	if fuel == 0 || !isCtor(a) || !isCtor(b) {
		if a.IsConst() && b.IsConst() && a.S == b.S {
			return !(a.U == b.U && a.B == b.B && a.Str == b.Str)
		}
		return false
	}
	if a.Op != b.Op {
		return true
	}
	for i := range a.Args {
		if ctorDistinct(a.Args[i], b.Args[i], fuel-1) {
			return true
		}
	}
	return false
}

func Eq(a, b *Term) *Term {
	if a.S != b.S {
		panic(fmt.Sprintf("Eq sort mismatch %v vs %v (%s / %s)", a.S, b.S, a.Debug(), b.Debug()))
	}
	if a.IsConst() && b.IsConst() {
		return BoolC(a.U == b.U && a.B == b.B && a.Str == b.Str)
	}
	if s, ok := lenOperand(a); ok && b.IsConst() {
		if b.U == 0 {
			return Eq(s, StrC(""))
		}
		return mk("=", SBool, mk("str.len", SInt, s), IntC(int64(b.U)))
	}
	if _, ok := lenOperand(b); ok && a.IsConst() {
		return Eq(b, a)
	}
	if structEq(a, b, 12) {
		return True
	}
	if ctorDistinct(a, b, 6) {
		return False
	}
	if a.S.K == KBool {
		if a.IsConst() {
			if a.B {
				return b
			}
			return Not(b)
		}
		if b.IsConst() {
			if b.B {
				return a
			}
			return Not(a)
		}
	}
	return mk("=", SBool, a, b)
}

// ---------- bit-vectors ----------

func BVBin(op string, a, b *Term) *Term {
	w := a.S.W
	if a.S != b.S {
		panic(fmt.Sprintf("BVBin %s sort mismatch %v vs %v", op, a.S, b.S))
	}
	if a.IsConst() && b.IsConst() {
		x, y := a.U, b.U
		var r uint64
		switch op {
		case "bvadd":
			r = x + y
		case "bvsub":
			r = x - y
		case "bvmul":
			r = x * y
		case "bvand":
			r = x & y
		case "bvor":
			r = x | y
		case "bvxor":
			r = x ^ y
		case "bvudiv":
			if y == 0 {
				r = mask(w)
			} else {
				r = x / y
			}
		case "bvurem":
			if y == 0 {
				r = x
			} else {
				r = x % y
			}
		case "bvsdiv":
			sx, sy := sext(w, x), sext(w, y)
			if sy == 0 {
				if sx < 0 {
					r = 1
				} else {
					r = mask(w)
				}
			} else if sy == -1 {
				r = uint64(-sx)
			} else {
				r = uint64(sx / sy)
			}
		case "bvsrem":
			sx, sy := sext(w, x), sext(w, y)
			if sy == 0 {
				r = x
			} else if sy == -1 {
				r = 0
			} else {
				r = uint64(sx % sy)
			}
		case "bvshl":
			if y >= uint64(w) {
				r = 0
			} else {
				r = x << y
			}
		case "bvlshr":
			if y >= uint64(w) {
				r = 0
			} else {
				r = x >> y
			}
		case "bvashr":
			sx := sext(w, x)
			if y >= uint64(w) {
				if sx < 0 {
					r = mask(w)
				} else {
					r = 0
				}
			} else {
				r = uint64(sx >> y)
			}
		default:
			panic("BVBin const: " + op)
		}
		return BVC(w, r)
	}
	// light identities
	switch op {
	case "bvadd", "bvor", "bvxor":
		if a.IsConst() && a.U == 0 {
			return b
		}
		if b.IsConst() && b.U == 0 {
			return a
		}
	case "bvsub", "bvshl", "bvlshr", "bvashr":
		if b.IsConst() && b.U == 0 {
			return a
		}
	case "bvand":
		if (a.IsConst() && a.U == 0) || (b.IsConst() && b.U == 0) {
			return BVC(w, 0)
		}
	case "bvmul":
		if a.IsConst() && a.U == 1 {
			return b
		}
		if b.IsConst() && b.U == 1 {
			return a
		}
	}
	return mk(op, a.S, a, b)
}

func BVCmp(op string, a, b *Term) *Term {
	if a.S != b.S {
		panic(fmt.Sprintf("BVCmp %s sort mismatch %v vs %v", op, a.S, b.S))
	}
	w := a.S.W
	if a.IsConst() && b.IsConst() {
		x, y := a.U, b.U
		sx, sy := sext(w, x), sext(w, y)
		switch op {
		case "bvult":
			return BoolC(x < y)
		case "bvule":
			return BoolC(x <= y)
		case "bvugt":
			return BoolC(x > y)
		case "bvuge":
			return BoolC(x >= y)
		case "bvslt":
			return BoolC(sx < sy)
		case "bvsle":
			return BoolC(sx <= sy)
		case "bvsgt":
			return BoolC(sx > sy)
		case "bvsge":
			return BoolC(sx >= sy)
		}
		panic("BVCmp const: " + op)
	}
	// len(s) compared with a constant: stay in integer arithmetic
	if s, ok := lenOperand(a); ok && b.IsConst() && int64(b.U) >= 0 {
		l, c := mk("str.len", SInt, s), IntC(int64(b.U))
		switch op {
		case "bvult", "bvslt":
			return mk("<", SBool, l, c)
		case "bvule", "bvsle":
			return mk("<=", SBool, l, c)
		case "bvugt", "bvsgt":
			return mk(">", SBool, l, c)
		case "bvuge", "bvsge":
			return mk(">=", SBool, l, c)
		}
	}
	return mk(op, SBool, a, b)
}

func BVNeg(a *Term) *Term {
	if a.IsConst() {
		return BVC(a.S.W, -a.U)
	}
	return mk("bvneg", a.S, a)
}

func BVNot(a *Term) *Term {
	if a.IsConst() {
		return BVC(a.S.W, ^a.U)
	}
	return mk("bvnot", a.S, a)
}

// BVResize converts a to width w, sign- or zero-extending by `signed`.
func BVResize(a *Term, w int, signed bool) *Term {
	from := a.S.W
	if from == w {
		return a
	}
	if a.IsConst() {
		if w < from {
			return BVC(w, a.U)
		}
		if signed {
			return BVC(w, uint64(sext(from, a.U)))
		}
		return BVC(w, a.U)
	}
	if w < from {
		t := mk("extract", SBV(w), a)
		t.Str = fmt.Sprintf("(_ extract %d 0)", w-1)
		return t
	}
	t := mk("ext", SBV(w), a)
	if signed {
		t.Str = fmt.Sprintf("(_ sign_extend %d)", w-from)
	} else {
		t.Str = fmt.Sprintf("(_ zero_extend %d)", w-from)
	}
	return t
}

// Len64 is math/bits.Len64 as an exact term.
func BVLen(a *Term) *Term {
	w := a.S.W
	if a.IsConst() {
		return BVC(w, uint64(bits.Len64(a.U)))
	}
	// ite chain from the top bit down.
	res := BVC(w, 0)
	for i := 0; i < w; i++ {
		// if a >= 2^i then at least i+1
		res = Ite(BVCmp("bvuge", a, BVC(w, uint64(1)<<uint(i))), BVC(w, uint64(i+1)), res)
	}
	return res
}

// BVTrailingZeros is math/bits.TrailingZeros64.
func BVTrailingZeros(a *Term) *Term {
	w := a.S.W
	if a.IsConst() {
		if a.U == 0 {
			return BVC(w, uint64(w))
		}
		return BVC(w, uint64(bits.TrailingZeros64(a.U)))
	}
	res := BVC(w, uint64(w))
	for i := w - 1; i >= 0; i-- {
		bit := BVBin("bvand", a, BVC(w, uint64(1)<<uint(i)))
		res = Ite(Not(Eq(bit, BVC(w, 0))), BVC(w, uint64(i)), res)
	}
	return res
}

// BVOnesCount is math/bits.OnesCount64.
func BVOnesCount(a *Term) *Term {
	w := a.S.W
	if a.IsConst() {
		return BVC(w, uint64(bits.OnesCount64(a.U)))
	}
	res := BVC(w, 0)
	for i := 0; i < w; i++ {
		bit := BVBin("bvand", BVBin("bvlshr", a, BVC(w, uint64(i))), BVC(w, 1))
		res = BVBin("bvadd", res, bit)
	}
	return res
}

// ---------- printing ----------

func smtString(s string) string {
	var b strings.Builder
	b.WriteByte('"')
	for i := 0; i < len(s); i++ {
		c := s[i]
		switch {
		case c == '"':
			b.WriteString(`""`)
		case c == '\\':
			b.WriteString(`\u{5c}`)
		case c >= 0x20 && c < 0x7f:
			b.WriteByte(c)
		default:
			fmt.Fprintf(&b, `\u{%x}`, c)
		}
	}
	b.WriteByte('"')
	return b.String()
}

func (t *Term) constSMT() string {
	switch t.S.K {
	case KBool:
		if t.B {
			return "true"
		}
		return "false"
	case KBV:
		if t.S.W%4 == 0 {
			return fmt.Sprintf("#x%0*x", t.S.W/4, t.U)
		}
		return fmt.Sprintf("#b%0*b", t.S.W, t.U)
	case KInt:
		if t.Str != "" {
			return t.Str
		}
		v := int64(t.U)
		if v < 0 {
			return fmt.Sprintf("(- %d)", -v)
		}
		return strconv.FormatInt(v, 10)
	case KString:
		return smtString(t.Str)
	}
	panic("constSMT: " + t.S.SMT())
}

// Debug renders a term as a (possibly large) tree; for diagnostics only.
func (t *Term) Debug() string {
	return t.debug(6)
}

func (t *Term) debug(fuel int) string {
	switch t.Op {
	case "c":
		return t.constSMT()
	case "v":
		return t.Str
	}
	if fuel == 0 {
		return "…"
	}
	var b strings.Builder
	b.WriteByte('(')
	if t.Op == "extract" || t.Op == "ext" {
		b.WriteString(t.Str)
	} else {
		b.WriteString(t.Op)
	}
	for _, a := range t.Args {
		b.WriteByte(' ')
		b.WriteString(a.debug(fuel - 1))
	}
	b.WriteByte(')')
	return b.String()
}
