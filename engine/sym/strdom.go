package sym

import (
	"fmt"
	"go/token"
	"go/types"
	"math"
	"sync"
)

// ---------- literal interning (algebra domain) ----------

type litTable struct {
	mu   sync.Mutex
	idx  map[string]int
	strs []string
}

func newLitTable() *litTable {
	lt := &litTable{idx: map[string]int{}}
	lt.intern("") // Lit(0) is the empty string
	return lt
}

func (lt *litTable) intern(s string) int {
	lt.mu.Lock()
	defer lt.mu.Unlock()
	if i, ok := lt.idx[s]; ok {
		return i
	}
	i := len(lt.strs)
	lt.idx[s] = i
	lt.strs = append(lt.strs, s)
	return i
}

func (lt *litTable) get(i int) (string, bool) {
	lt.mu.Lock()
	defer lt.mu.Unlock()
	if i < 0 || i >= len(lt.strs) {
		return "", false
	}
	return lt.strs[i], true
}

// strLit returns the term of a string literal in the current domain.
func (m *Machine) strLit(s string) *Term {
	if m.Domain == DomAlgebra {
		return mk("Lit", SBytes, IntC(int64(m.W.Lits.intern(s))))
	}
	return StrC(s)
}

// litValue returns the Go string behind a literal term.
func (m *Machine) litValue(t *Term) (string, bool) {
	if t.S.K == KString && t.IsConst() {
		return t.Str, true
	}
	if t.Op == "Lit" && t.Args[0].IsConst() {
		return m.W.Lits.get(int(t.Args[0].U))
	}
	return "", false
}

// Ctor builds Cons(tag, args...) in the algebra.
func (m *Machine) ctor(tag string, args ...*Term) *Term {
	l := mk("BNil", SBList)
	for i := len(args) - 1; i >= 0; i-- {
		a := args[i]
		switch a.S.K {
		case KBytes:
		case KBV:
			a = mk("OfU64", SBytes, BVResize(a, 64, false))
		case KBool:
			a = mk("OfU64", SBytes, Ite(a, BVC(64, 1), BVC(64, 0)))
		default:
			panic(m.unsupported("ctor argument of sort %s", a.S.SMT()))
		}
		l = mk("BCons", SBList, a, l)
	}
	return mk("Cons", SBytes, IntC(int64(m.W.Lits.intern("#"+tag))), l)
}

func (m *Machine) zeroBytes(n int) *Term {
	if m.Domain == DomAlgebra {
		return m.ctor(fmt.Sprintf("zeros%d", n))
	}
	b := make([]byte, n)
	return StrC(string(b))
}

func (m *Machine) note(s string) {
	if m.notes == nil {
		m.notes = map[string]bool{}
	}
	m.notes[s] = true
}

// bytesLenTerm returns len() of a string-like term as a 64-bit value.
func (m *Machine) strLen(t *Term) *Term {
	if s, ok := m.litValue(t); ok {
		return BVC(64, uint64(len(s)))
	}
	if t.S.K == KString {
		return strLen64(t)
	}
	// algebra: blen is an uninterpreted length, tied to emptiness
	bl := App("blen", SBV(64), t)
	key := "blen:" + fmt.Sprintf("%p", t)
	if _, seen := m.side[key]; !seen {
		m.side[key] = True
		m.assume(And(BVCmp("bvuge", bl, BVC(64, 1)), BVCmp("bvult", bl, BVC(64, 1<<31))))
	}
	return Ite(Eq(t, m.strLit("")), BVC(64, 0), bl)
}

func (m *Machine) bytesLen(b ByteSlice) *Term {
	if b.Nil {
		return BVC(64, 0)
	}
	return m.strLen(b.T)
}

// strLen64 is ((_ int2bv 64) (str.len s)); comparisons with zero are rewritten by callers.
func strLen64(s *Term) *Term {
	if s.IsConst() {
		return BVC(64, uint64(len(s.Str)))
	}
	t := mk("int2bv", SBV(64), mk("str.len", SInt, s))
	t.Str = "(_ int2bv 64)"
	return t
}

// lenOperand recognises strLen64(s) and returns s.
func lenOperand(t *Term) (*Term, bool) {
	if t.Op == "int2bv" && len(t.Args) == 1 && t.Args[0].Op == "str.len" {
		return t.Args[0].Args[0], true
	}
	return nil, false
}

func (m *Machine) prefixN(t *Term, n int) *Term {
	if m.Domain == DomAlgebra {
		return App(fmt.Sprintf("prefix%d", n), SBytes, t)
	}
	return mk("str.substr", SString, t, IntC(0), IntC(int64(n)))
}

func (m *Machine) strBinop(op token.Token, a, b *Term) Value {
	switch op {
	case token.ADD:
		return m.strConcat(a, b)
	}
	if a.S.K == KString {
		switch op {
		case token.LSS:
			return mk("str.<", SBool, a, b)
		case token.LEQ:
			return mk("str.<=", SBool, a, b)
		case token.GTR:
			return mk("str.<", SBool, b, a)
		case token.GEQ:
			return mk("str.<=", SBool, b, a)
		}
	}
	panic(m.unsupported("string operator %s in domain %d", op, m.Domain))
}

func (m *Machine) strConcat(a, b *Term) *Term {
	sa, oka := m.litValue(a)
	sb, okb := m.litValue(b)
	if oka && okb {
		return m.strLit(sa + sb)
	}
	if oka && sa == "" {
		return b
	}
	if okb && sb == "" {
		return a
	}
	if a.S.K == KString {
		return joinPieces(append(pieces(a), pieces(b)...))
	}
	m.note("algebra: string concatenation modelled as an injective constructor")
	return m.ctor("concat", a, b)
}

// pieces flattens a String-domain term into the operands of its top-level concatenation.
func pieces(t *Term) []*Term {
	if t.Op == "str.++" {
		var out []*Term
		for _, a := range t.Args {
			out = append(out, pieces(a)...)
		}
		return out
	}
	if t.IsConst() && t.Str == "" {
		return nil
	}
	return []*Term{t}
}

// joinPieces rebuilds a term from pieces, merging adjacent literals.
func joinPieces(ps []*Term) *Term {
	var out []*Term
	for _, p := range ps {
		if p.IsConst() {
			if p.Str == "" {
				continue
			}
			if n := len(out); n > 0 && out[n-1].IsConst() {
				out[n-1] = StrC(out[n-1].Str + p.Str)
				continue
			}
		}
		out = append(out, p)
	}
	switch len(out) {
	case 0:
		return StrC("")
	case 1:
		return out[0]
	}
	return mk("str.++", SString, out...)
}

// charFree reports whether the path condition is known (syntactically) to exclude byte ch from t.
func (m *Machine) charFree(t *Term, ch byte) bool {
	if t.IsConst() {
		for i := 0; i < len(t.Str); i++ {
			if t.Str[i] == ch {
				return false
			}
		}
		return true
	}
	if m.cfree != nil {
		if set, ok := m.cfree[t]; ok {
			for i := 0; i < len(set); i++ {
				if set[i] == ch {
					return true
				}
			}
		}
	}
	return false
}

// markCharFree assumes and records that t contains none of the bytes in chars.
func (m *Machine) markCharFree(t *Term, chars string) {
	if t.IsConst() {
		return
	}
	if m.cfree == nil {
		m.cfree = map[*Term]string{}
	}
	for i := 0; i < len(chars); i++ {
		if !m.charFree(t, chars[i]) {
			m.assume(Not(strContains(t, StrC(string([]byte{chars[i]})))))
			m.cfree[t] += string([]byte{chars[i]})
		}
	}
}

// lenKnown returns the length of t when it is syntactically determined (literals, terms whose
// length was fixed by an assumption, concatenations of those).
func (m *Machine) lenKnown(t *Term) (int, bool) {
	if t.IsConst() {
		return len(t.Str), true
	}
	if n, ok := m.klen[t]; ok {
		return n, true
	}
	if t.Op == "str.++" {
		sum := 0
		for _, a := range t.Args {
			n, ok := m.lenKnown(a)
			if !ok {
				return 0, false
			}
			sum += n
		}
		return sum, true
	}
	return 0, false
}

// setLen assumes and records len(t) = n.
func (m *Machine) setLen(t *Term, n int) {
	if t.IsConst() {
		return
	}
	if m.klen == nil {
		m.klen = map[*Term]int{}
	}
	if _, ok := m.klen[t]; !ok {
		m.assume(mk("=", SBool, mk("str.len", SInt, t), IntC(int64(n))))
		m.klen[t] = n
	}
}

// splitAt splits a concatenation after exactly n bytes when all lengths involved are known.
func (m *Machine) splitAt(t *Term, n int) (head, tail *Term, ok bool) {
	ps := pieces(t)
	var h []*Term
	for i, p := range ps {
		if n == 0 {
			return joinPieces(h), joinPieces(ps[i:]), true
		}
		l, known := m.lenKnown(p)
		if !known {
			return nil, nil, false
		}
		if l <= n {
			h = append(h, p)
			n -= l
			continue
		}
		// the boundary falls inside p
		var a, b *Term
		if p.IsConst() {
			a, b = StrC(p.Str[:n]), StrC(p.Str[n:])
		} else {
			a = mk("str.substr", SString, p, IntC(0), IntC(int64(n)))
			b = mk("str.substr", SString, p, IntC(int64(n)), IntC(int64(l-n)))
			if m.klen == nil {
				m.klen = map[*Term]int{}
			}
			m.klen[a], m.klen[b] = n, l-n // implied by len(p) = l
			if set, okc := m.cfree[p]; okc {
				m.cfree[a], m.cfree[b] = set, set // substrings of a string free of a byte are free of it
			}
		}
		h = append(h, a)
		rest := append([]*Term{b}, ps[i+1:]...)
		return joinPieces(h), joinPieces(rest), true
	}
	if n == 0 {
		return joinPieces(h), StrC(""), true
	}
	return nil, nil, false
}

// cutAtByte splits a concatenation at the first occurrence of byte ch when that position
// is syntactically determined: every piece before it is known to be free of ch.
func (m *Machine) cutAtByte(t *Term, ch byte) (before, after *Term, ok bool) {
	ps := pieces(t)
	for i, p := range ps {
		if p.IsConst() {
			for j := 0; j < len(p.Str); j++ {
				if p.Str[j] == ch {
					b := append(append([]*Term{}, ps[:i]...), StrC(p.Str[:j]))
					a := append([]*Term{StrC(p.Str[j+1:])}, ps[i+1:]...)
					return joinPieces(b), joinPieces(a), true
				}
			}
			continue
		}
		if !m.charFree(p, ch) {
			return nil, nil, false
		}
	}
	return nil, nil, false
}

// endsWithKnown decides syntactically whether t ends in byte ch.
func (m *Machine) endsWithKnown(t *Term, ch byte) (ends bool, known bool) {
	ps := pieces(t)
	for i := len(ps) - 1; i >= 0; i-- {
		p := ps[i]
		if p.IsConst() {
			return p.Str[len(p.Str)-1] == ch, true
		}
		if !m.charFree(p, ch) {
			return false, false
		}
		// p is free of ch: if it is non-empty the answer is no, if it is empty look further left
	}
	return false, true
}

// litPrefix decides syntactically whether t starts with the literal pre, returning the rest.
func (m *Machine) litPrefix(t *Term, pre string) (rest *Term, has bool, known bool) {
	ps := pieces(t)
	if len(ps) == 0 {
		return StrC(""), pre == "", true
	}
	if !ps[0].IsConst() {
		return nil, false, false
	}
	f := ps[0].Str
	if len(f) >= len(pre) {
		if f[:len(pre)] == pre {
			return joinPieces(append([]*Term{StrC(f[len(pre):])}, ps[1:]...)), true, true
		}
		return nil, false, true
	}
	if pre[:len(f)] != f {
		return nil, false, true
	}
	return nil, false, false
}

func intOfBV(t *Term) *Term {
	if t.IsConst() {
		return IntC(sext(t.S.W, t.U))
	}
	if s, ok := lenOperand(t); ok {
		return mk("str.len", SInt, s)
	}
	return mk("bv2nat", SInt, t)
}

func (m *Machine) strIndex(s *Term, idx *Term) Value {
	if s.S.K != KString {
		panic(m.unsupported("byte indexing into an opaque (algebra) string"))
	}
	if c, ok := m.litValue(s); ok && idx.IsConst() {
		i := int(sext(idx.S.W, idx.U))
		if i < 0 || i >= len(c) {
			panic(m.goPanic("string index out of range"))
		}
		return BVC(8, uint64(c[i]))
	}
	ln := mk("str.len", SInt, s)
	ii := intOfBV(idx)
	inr := And(mk(">=", SBool, ii, IntC(0)), mk("<", SBool, ii, ln))
	if !m.branch("stridx.inrange", inr) {
		panic(m.goPanic("string index out of range"))
	}
	code := mk("str.to_code", SInt, mk("str.at", SString, s, ii))
	t := mk("int2bv", SBV(8), code)
	t.Str = "(_ int2bv 8)"
	return t
}

func (m *Machine) strSlice(s, lo, hi *Term) *Term {
	if s.S.K != KString {
		if lo == nil && hi == nil {
			return s
		}
		if c, ok := m.litValue(s); ok && (lo == nil || lo.IsConst()) && (hi == nil || hi.IsConst()) {
			l, h := 0, len(c)
			if lo != nil {
				l = int(lo.U)
			}
			if hi != nil {
				h = int(hi.U)
			}
			if l > h || h > len(c) {
				panic(m.goPanic("slice bounds out of range"))
			}
			return m.strLit(c[l:h])
		}
		// opaque bytes: the sub-slice is an uninterpreted function of (bytes, bounds)
		m.weak = appendUniq(m.weak, []string{"sub-slice of opaque bytes"}, 20)
		m.note("sub-slice of opaque bytes modelled as uninterpreted function")
		lt, ht := BVC(64, 0), BVC(64, ^uint64(0))
		if lo != nil {
			lt = BVResize(lo, 64, true)
		}
		if hi != nil {
			ht = BVResize(hi, 64, true)
		}
		return App("uf.weak.slice", SBytes, s, lt, ht)
	}
	ln := mk("str.len", SInt, s)
	var l, h *Term = IntC(0), ln
	if lo != nil {
		l = intOfBV(lo)
	}
	if hi != nil {
		h = intOfBV(hi)
	}
	ok := And(And(mk("<=", SBool, IntC(0), l), mk("<=", SBool, l, h)), mk("<=", SBool, h, ln))
	if !m.branch("strslice.inrange", ok) {
		panic(m.goPanic("slice bounds out of range (string)"))
	}
	return mk("str.substr", SString, s, l, mk("-", SInt, h, l))
}

func (m *Machine) stringToByteArraySlice(s *Term) Value {
	c, ok := m.litValue(s)
	if !ok {
		panic(m.unsupported("symbolic string to byte array"))
	}
	e := make([]Value, len(c))
	for i := range e {
		e[i] = BVC(8, uint64(c[i]))
	}
	return SliceV{O: m.newObj(&ArrayV{E: e}, "bytes"), Len: len(c), Cap: len(c)}
}

func (m *Machine) byteSliceToString(b SliceV) Value {
	if b.Len == 0 {
		return m.strLit("")
	}
	arr := b.O.V.(*ArrayV)
	all := true
	buf := make([]byte, b.Len)
	for i := 0; i < b.Len; i++ {
		t := arr.E[b.Off+i].(*Term)
		if !t.IsConst() {
			all = false
			break
		}
		buf[i] = byte(t.U)
	}
	if all {
		return m.strLit(string(buf))
	}
	if m.Domain == DomAlgebra {
		panic(m.unsupported("symbolic byte array to algebra string"))
	}
	var r *Term = StrC("")
	for i := 0; i < b.Len; i++ {
		t := arr.E[b.Off+i].(*Term)
		ch := mk("str.from_code", SString, mk("bv2nat", SInt, t))
		r = mk("str.++", SString, r, ch)
	}
	return r
}

// ---------- floats (constants only) ----------

func floatBits(f float64) uint64 { return math.Float64bits(f) }

func convertFloatConst(t *Term, fb, tb *types.Basic, fw int, fs bool, tw int) Value {
	if fb.Info()&types.IsFloat != 0 && tb.Info()&types.IsFloat != 0 {
		return t
	}
	if fb.Info()&types.IsFloat != 0 {
		f := math.Float64frombits(t.U)
		w, _, _ := intWidth(tb)
		return BVC(w, uint64(int64(f)))
	}
	// int -> float
	var f float64
	if fs {
		f = float64(sext(fw, t.U))
	} else {
		f = float64(t.U)
	}
	return &Term{Op: "c", S: SBV(64), U: math.Float64bits(f)}
}
