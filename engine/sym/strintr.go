package sym

import (
	"fmt"
	"strings"

	"golang.org/x/tools/go/ssa"
)

// String-domain contracts for strings.*, strconv, bufio, io, base64, fmt.Sscanf.
// All of them build SMT-LIB string terms; none of them forks except Split / ReadLine
// (which fork on "is there another separator").

func (m *Machine) needString(t *Term, what string) *Term {
	if t.S.K != KString {
		panic(m.unsupported("%s needs the String domain (got an algebra term)", what))
	}
	return t
}

func strContains(s, sub *Term) *Term {
	if s.IsConst() && sub.IsConst() {
		return BoolC(containsStr(s.Str, sub.Str))
	}
	return mk("str.contains", SBool, s, sub)
}

func containsStr(s, sub string) bool {
	for i := 0; i+len(sub) <= len(s); i++ {
		if s[i:i+len(sub)] == sub {
			return true
		}
	}
	return false
}

func strPrefixOf(pre, s *Term) *Term {
	if s.IsConst() && pre.IsConst() {
		return BoolC(len(s.Str) >= len(pre.Str) && s.Str[:len(pre.Str)] == pre.Str)
	}
	return mk("str.prefixof", SBool, pre, s)
}

func strSuffixOf(suf, s *Term) *Term {
	if s.IsConst() && suf.IsConst() {
		return BoolC(len(s.Str) >= len(suf.Str) && s.Str[len(s.Str)-len(suf.Str):] == suf.Str)
	}
	return mk("str.suffixof", SBool, suf, s)
}

func strLenInt(s *Term) *Term {
	if s.IsConst() {
		return IntC(int64(len(s.Str)))
	}
	return mk("str.len", SInt, s)
}

func intAdd(a, b *Term) *Term { return mk("+", SInt, a, b) }
func intSub(a, b *Term) *Term { return mk("-", SInt, a, b) }
func intLE(a, b *Term) *Term  { return mk("<=", SBool, a, b) }
func intLT(a, b *Term) *Term  { return mk("<", SBool, a, b) }
func intGE(a, b *Term) *Term  { return mk(">=", SBool, a, b) }

// strCut is strings.Cut as terms: (before, after, found).
func strCut(s, sep *Term) (*Term, *Term, *Term) {
	idx := mk("str.indexof", SInt, s, sep, IntC(0))
	found := strContains(s, sep)
	before := Ite(found, mk("str.substr", SString, s, IntC(0), idx), s)
	start := intAdd(idx, strLenInt(sep))
	after := Ite(found, mk("str.substr", SString, s, start, intSub(strLenInt(s), start)), StrC(""))
	return before, after, found
}

func (m *Machine) sliceOfStrings(ts []*Term) Value {
	if len(ts) == 0 {
		return SliceV{O: m.newObj(&ArrayV{}, "strs"), Len: 0, Cap: 0}
	}
	e := make([]Value, len(ts))
	for i, t := range ts {
		e[i] = t
	}
	return SliceV{O: m.newObj(&ArrayV{E: e}, "strs"), Len: len(ts), Cap: len(ts)}
}

// splitFork implements strings.Split / SplitN by forking on the presence of another separator.
func (m *Machine) splitFork(s, sep *Term, limit int) []*Term {
	max := m.Cfg.Params["maxsplit"]
	if max == 0 {
		max = 6
	}
	var out []*Term
	cur := s
	for {
		if limit > 0 && len(out) == limit-1 {
			out = append(out, cur)
			return out
		}
		if len(out) > max {
			panic(pathEnd{kind: "cut", msg: fmt.Sprintf("strings.Split: more than %d pieces (bound maxsplit)", max)})
		}
		if sep.IsConst() && len(sep.Str) == 1 {
			if before, after, ok := m.cutAtByte(cur, sep.Str[0]); ok {
				out = append(out, before)
				cur = after
				continue
			}
			// no separator anywhere, syntactically?
			all := true
			for _, pc := range pieces(cur) {
				if !m.charFree(pc, sep.Str[0]) {
					all = false
				}
			}
			if all {
				out = append(out, cur)
				return out
			}
		}
		if !m.branch("split.more", strContains(cur, sep)) {
			out = append(out, cur)
			return out
		}
		before, after, _ := strCut(cur, sep)
		// under the branch condition the cut is exact; name the pieces to keep terms small
		out = append(out, before)
		cur = after
	}
}

type readerState struct {
	rest  *Term
	size  int // bufio buffer size (ReadLine returns at most this many bytes per call)
	epoch int // number of reads so far: ReadLine results are valid only within their epoch
}

func (m *Machine) readerKey(v Value) string {
	p, ok := v.(Ptr)
	if !ok || p.O == nil {
		panic(m.unsupported("reader handle is %T", v))
	}
	return fmt.Sprintf("reader:%d:%v", p.O.ID, p.Path)
}

// readerSource extracts the remaining data of an io.Reader the engine knows about.
func (m *Machine) readerSource(v Value) (*Term, func(*Term)) {
	if iv, ok := v.(IfaceV); ok {
		v = iv.V
	}
	p, ok := v.(Ptr)
	if !ok || p.O == nil {
		panic(m.unsupported("io.Reader of unknown kind %T", v))
	}
	key := fmt.Sprintf("reader:%d:%v", p.O.ID, p.Path)
	if st, ok := m.side[key]; ok {
		rs := st.(*readerState)
		return rs.rest, func(t *Term) { rs.rest = t }
	}
	// verifrt.StrReader{S string}
	if sv, ok := p.O.V.(*StructV); ok && len(sv.F) >= 1 {
		if t, ok := sv.F[0].(*Term); ok && (t.S.K == KString || t.S.K == KBytes) {
			return t, func(nt *Term) {
				f := append([]Value{}, sv.F...)
				f[0] = nt
				p.O.V = &StructV{F: f}
				sv = p.O.V.(*StructV)
			}
		}
	}
	panic(m.unsupported("io.Reader without a data model"))
}

func (m *Machine) newReaderObj(data *Term, name string) Ptr {
	o := m.newObj(&StructV{F: []Value{}}, name)
	m.side[fmt.Sprintf("reader:%d:%v", o.ID, []int(nil))] = &readerState{rest: data, size: 4096}
	return Ptr{O: o}
}

func (m *Machine) errSentinelByName(global string) Value {
	// look the global up in the loaded program so that == comparisons in real code work
	i := lastDot(global)
	pkg := m.W.Pkgs[global[:i]]
	if pkg == nil {
		panic(m.unsupported("package of %s not loaded", global))
	}
	g, ok := pkg.Members[global[i+1:]].(*ssa.Global)
	if !ok {
		panic(m.unsupported("global %s not found", global))
	}
	return m.global(g).V
}

func lastDot(s string) int {
	for i := len(s) - 1; i >= 0; i-- {
		if s[i] == '.' {
			return i
		}
	}
	return -1
}

func (m *Machine) opaqueError(tag string) Value {
	return m.sentinel("error:" + tag)
}

// trimSpace is strings/bytes.TrimSpace. String domain: exact for ASCII white space (the result
// is the middle of a decomposition pre ++ r ++ post with pre, post in ws* and r neither starting
// nor ending with white space; the pieces are functionally determined by s, so stating them on
// fresh variables is a definition). Algebra domain: uninterpreted and idempotent, on a weak path.
func (m *Machine) trimSpace(s *Term) *Term {
	if m.Domain != DomString {
		m.weak = appendUniq(m.weak, []string{"TrimSpace over opaque bytes"}, 20)
		r := App("uf.trimSpace", s.S, s)
		m.assume(Eq(App("uf.trimSpace", s.S, r), r))
		return r
	}
	var ws *Term
	for _, c := range []string{" ", "\t", "\n", "\v", "\f", "\r"} {
		t := mk("str.to_re", SRe, StrC(c))
		if ws == nil {
			ws = t
		} else {
			ws = mk("re.union", SRe, ws, t)
		}
	}
	anything := &Term{Op: "re.all", S: SRe}
	pre, r, post := m.fresh("trim.pre", SString), m.fresh("trim.mid", SString), m.fresh("trim.post", SString)
	m.assume(Eq(s, mk("str.++", SString, pre, r, post)))
	m.assume(mk("str.in_re", SBool, pre, mk("re.*", SRe, ws)))
	m.assume(mk("str.in_re", SBool, post, mk("re.*", SRe, ws)))
	m.assume(Not(mk("str.in_re", SBool, r, mk("re.++", SRe, ws, anything))))
	m.assume(Not(mk("str.in_re", SBool, r, mk("re.++", SRe, anything, ws))))
	return r
}

func (m *Machine) builderKey(v Value) string {
	p, ok := v.(Ptr)
	if !ok || p.O == nil {
		panic(m.unsupported("strings.Builder handle is %T", v))
	}
	return fmt.Sprintf("sb:%d:%v", p.O.ID, p.Path)
}

func (m *Machine) builderGet(v Value) *Term {
	if t, ok := m.side[m.builderKey(v)]; ok {
		return t.(*Term)
	}
	return m.strLit("")
}

func init() {
	str := func(v Value) *Term { return v.(*Term) }
	add := func(name string, f intrinsic) { intrinsics[name] = f }

	add("strings.HasSuffix", func(m *Machine, _ *Thread, _ *Frame, a []Value, _ ssa.Value) Value {
		s, suf := str(a[0]), str(a[1])
		if cs, ok := m.litValue(s); ok {
			if cf, ok := m.litValue(suf); ok {
				return BoolC(len(cs) >= len(cf) && cs[len(cs)-len(cf):] == cf)
			}
		}
		if cf, ok := m.litValue(suf); ok && len(cf) == 1 && s.S.K == KString {
			if ends, known := m.endsWithKnown(s, cf[0]); known {
				return BoolC(ends)
			}
		}
		return strSuffixOf(m.needString(suf, "HasSuffix"), m.needString(s, "HasSuffix"))
	})
	add("strings.HasPrefix", func(m *Machine, _ *Thread, _ *Frame, a []Value, _ ssa.Value) Value {
		s, pre := str(a[0]), str(a[1])
		if cs, ok := m.litValue(s); ok {
			if cf, ok := m.litValue(pre); ok {
				return BoolC(len(cs) >= len(cf) && cs[:len(cf)] == cf)
			}
		}
		if cf, ok := m.litValue(pre); ok && s.S.K == KString {
			if _, has, known := m.litPrefix(s, cf); known {
				return BoolC(has)
			}
		}
		return strPrefixOf(m.needString(pre, "HasPrefix"), m.needString(s, "HasPrefix"))
	})
	add("strings.Contains", func(m *Machine, _ *Thread, _ *Frame, a []Value, _ ssa.Value) Value {
		return strContains(m.needString(str(a[0]), "Contains"), m.needString(str(a[1]), "Contains"))
	})
	add("strings.CutPrefix", func(m *Machine, _ *Thread, _ *Frame, a []Value, _ ssa.Value) Value {
		s, pre := m.needString(str(a[0]), "CutPrefix"), m.needString(str(a[1]), "CutPrefix")
		if cf, isLit := m.litValue(pre); isLit {
			if rest, has, known := m.litPrefix(s, cf); known {
				if has {
					return TupleV{rest, True}
				}
				return TupleV{s, False}
			}
		}
		ok := strPrefixOf(pre, s)
		rest := mk("str.substr", SString, s, strLenInt(pre), intSub(strLenInt(s), strLenInt(pre)))
		return TupleV{Ite(ok, rest, s), ok}
	})
	add("strings.TrimPrefix", func(m *Machine, _ *Thread, _ *Frame, a []Value, _ ssa.Value) Value {
		s, pre := m.needString(str(a[0]), "TrimPrefix"), m.needString(str(a[1]), "TrimPrefix")
		ok := strPrefixOf(pre, s)
		rest := mk("str.substr", SString, s, strLenInt(pre), intSub(strLenInt(s), strLenInt(pre)))
		return Ite(ok, rest, s)
	})
	add("strings.TrimSuffix", func(m *Machine, _ *Thread, _ *Frame, a []Value, _ ssa.Value) Value {
		s, suf := m.needString(str(a[0]), "TrimSuffix"), m.needString(str(a[1]), "TrimSuffix")
		if cf, isLit := m.litValue(suf); isLit && len(cf) == 1 {
			if ends, known := m.endsWithKnown(s, cf[0]); known && !ends {
				return s
			}
		}
		ok := strSuffixOf(suf, s)
		rest := mk("str.substr", SString, s, IntC(0), intSub(strLenInt(s), strLenInt(suf)))
		return Ite(ok, rest, s)
	})
	algebraCutNL := func(m *Machine, s, sep *Term) (Value, bool) {
		if m.Domain != DomAlgebra {
			return nil, false
		}
		if c, ok := m.litValue(sep); !ok || c != "\n" {
			panic(m.unsupported("Cut in the algebra domain with a separator other than \"\\n\""))
		}
		// first line / remainder are well-defined functions of the bytes (shared with the note contract)
		if m.branch("cut.hasnl", App("uf.hasNewline", SBool, s)) {
			return TupleV{App("uf.firstLine", SBytes, s), App("uf.afterFirstLine", SBytes, s), True}, true
		}
		return TupleV{s, m.strLit(""), False}, true
	}
	add("bytes.Cut", func(m *Machine, _ *Thread, _ *Frame, a []Value, _ ssa.Value) Value {
		s, sep := m.termOf(a[0]), m.termOf(a[1])
		if v, ok := algebraCutNL(m, s, sep); ok {
			tv := v.(TupleV)
			return TupleV{ByteSlice{T: tv[0].(*Term), Resliced: true}, ByteSlice{T: tv[1].(*Term), Resliced: true}, tv[2]}
		}
		if m.branch("cut.found", strContains(s, sep)) {
			idx := mk("str.indexof", SInt, s, sep, IntC(0))
			before := mk("str.substr", SString, s, IntC(0), idx)
			start := intAdd(idx, strLenInt(sep))
			after := mk("str.substr", SString, s, start, intSub(strLenInt(s), start))
			return TupleV{ByteSlice{T: before, Resliced: true}, ByteSlice{T: after, Resliced: true}, True}
		}
		return TupleV{ByteSlice{T: s, Resliced: true}, ByteSlice{Nil: true, T: StrC("")}, False}
	})
	add("html.EscapeString", func(m *Machine, _ *Thread, _ *Frame, a []Value, _ ssa.Value) Value {
		s := str(a[0])
		if c, ok := m.litValue(s); ok && !strings.ContainsAny(c, "<>&'\"") {
			return s
		}
		return App("uf.htmlEscape", s.S, s) // may differ from s (it does iff s contains <, >, &, ' or ")
	})
	add("strings.TrimSpace", func(m *Machine, _ *Thread, _ *Frame, a []Value, _ ssa.Value) Value {
		s := str(a[0])
		if c, ok := m.litValue(s); ok {
			return m.strLit(strings.TrimSpace(c))
		}
		r := m.trimSpace(s)
		return r
	})
	// bytes.CutPrefix / CutSuffix / TrimPrefix / TrimSuffix (string domain): sub-slices of the argument
	bytesAffix := func(name string, suffix, cut bool) {
		add(name, func(m *Machine, _ *Thread, _ *Frame, a []Value, _ ssa.Value) Value {
			b, ok := a[0].(ByteSlice)
			if !ok {
				panic(m.unsupported("%s of %T", name, a[0]))
			}
			s, x := m.needString(m.current(b), name), m.needString(m.termOf(a[1]), name)
			var has, rest *Term
			if suffix {
				has = strSuffixOf(x, s)
				rest = mk("str.substr", SString, s, IntC(0), intSub(strLenInt(s), strLenInt(x)))
			} else {
				has = strPrefixOf(x, s)
				rest = mk("str.substr", SString, s, strLenInt(x), intSub(strLenInt(s), strLenInt(x)))
			}
			out := ByteSlice{T: Ite(has, rest, s), Resliced: true, Buf: b.Buf, AtStart: b.AtStart && suffix, Vol: b.Vol, Epoch: b.Epoch}
			if cut {
				return TupleV{out, has}
			}
			return out
		})
	}
	bytesAffix("bytes.CutPrefix", false, true)
	bytesAffix("bytes.CutSuffix", true, true)
	bytesAffix("bytes.TrimPrefix", false, false)
	bytesAffix("bytes.TrimSuffix", true, false)
	add("bytes.TrimSpace", func(m *Machine, _ *Thread, _ *Frame, a []Value, _ ssa.Value) Value {
		b, ok := a[0].(ByteSlice)
		if !ok {
			panic(m.unsupported("bytes.TrimSpace of %T", a[0]))
		}
		if b.Nil {
			return b
		}
		s := m.current(b)
		if c, ok := m.litValue(s); ok {
			return ByteSlice{T: m.strLit(strings.TrimSpace(c)), Resliced: true, Buf: b.Buf}
		}
		r := m.trimSpace(s)
		return ByteSlice{T: r, Resliced: true, Buf: b.Buf, Vol: b.Vol, Epoch: b.Epoch}
	})
	add("strings.Cut", func(m *Machine, _ *Thread, _ *Frame, a []Value, _ ssa.Value) Value {
		if v, ok := algebraCutNL(m, str(a[0]), str(a[1])); ok {
			return v
		}
		if cf, isLit := m.litValue(str(a[1])); isLit && len(cf) == 1 && str(a[0]).S.K == KString {
			if before, after, ok := m.cutAtByte(str(a[0]), cf[0]); ok {
				return TupleV{before, after, True}
			}
		}
		s, sep := m.needString(str(a[0]), "Cut"), m.needString(str(a[1]), "Cut")
		if m.branch("cut.found", strContains(s, sep)) {
			idx := mk("str.indexof", SInt, s, sep, IntC(0))
			before := mk("str.substr", SString, s, IntC(0), idx)
			start := intAdd(idx, strLenInt(sep))
			after := mk("str.substr", SString, s, start, intSub(strLenInt(s), start))
			return TupleV{before, after, True}
		}
		return TupleV{s, StrC(""), False}
	})
	add("strings.Split", func(m *Machine, _ *Thread, _ *Frame, a []Value, _ ssa.Value) Value {
		return m.sliceOfStrings(m.splitFork(m.needString(str(a[0]), "Split"), m.needString(str(a[1]), "Split"), 0))
	})
	add("strings.SplitN", func(m *Machine, _ *Thread, _ *Frame, a []Value, _ ssa.Value) Value {
		n := m.concInt("splitn.n", a[2])
		if m.Domain == DomAlgebra {
			// algebra: only the first-line split of a checkpoint is modelled
			sep, ok := m.litValue(str(a[1]))
			if !ok || sep != "\n" || n != 2 {
				panic(m.unsupported("strings.SplitN in the algebra domain (only sep=\"\\n\", n=2)"))
			}
			s := str(a[0])
			has := App("uf.hasNewline", SBool, s)
			if m.branch("splitn.hasnl", has) {
				return m.sliceOfStrings([]*Term{App("uf.firstLine", SBytes, s), App("uf.afterFirstLine", SBytes, s)})
			}
			return m.sliceOfStrings([]*Term{s})
		}
		return m.sliceOfStrings(m.splitFork(m.needString(str(a[0]), "SplitN"), m.needString(str(a[1]), "SplitN"), n))
	})
	add("bytes.SplitN", func(m *Machine, _ *Thread, _ *Frame, a []Value, _ ssa.Value) Value {
		n := m.concInt("splitn.n", a[2])
		ts := m.splitFork(m.needString(m.termOf(a[0]), "bytes.SplitN"), m.needString(m.termOf(a[1]), "bytes.SplitN"), n)
		e := make([]Value, len(ts))
		for i, t := range ts {
			e[i] = ByteSlice{T: t, Resliced: true}
		}
		return SliceV{O: m.newObj(&ArrayV{E: e}, "splitn"), Len: len(ts), Cap: len(ts)}
	})
	add("strings.Join", func(m *Machine, _ *Thread, _ *Frame, a []Value, _ ssa.Value) Value {
		sv := a[0].(SliceV)
		sep := str(a[1])
		var r *Term = m.strLit("")
		for i := 0; i < sv.Len; i++ {
			if i > 0 {
				r = m.strConcat(r, sep)
			}
			r = m.strConcat(r, sv.O.V.(*ArrayV).E[sv.Off+i].(*Term))
		}
		return r
	})

	// strings.Builder
	add("(*strings.Builder).WriteString", func(m *Machine, _ *Thread, _ *Frame, a []Value, _ ssa.Value) Value {
		k := m.builderKey(a[0])
		m.side[k] = m.strConcat(m.builderGet(a[0]), str(a[1]))
		return TupleV{m.strLen(str(a[1])), IfaceV{}}
	})
	add("(*strings.Builder).WriteRune", func(m *Machine, _ *Thread, _ *Frame, a []Value, _ ssa.Value) Value {
		r := a[1].(*Term)
		if !r.IsConst() || r.U > 127 {
			panic(m.unsupported("Builder.WriteRune of a symbolic or non-ASCII rune"))
		}
		k := m.builderKey(a[0])
		m.side[k] = m.strConcat(m.builderGet(a[0]), m.strLit(string(rune(r.U))))
		return TupleV{BVC(64, 1), IfaceV{}}
	})
	add("(*strings.Builder).WriteByte", func(m *Machine, _ *Thread, _ *Frame, a []Value, _ ssa.Value) Value {
		r := a[1].(*Term)
		if !r.IsConst() {
			panic(m.unsupported("Builder.WriteByte of a symbolic byte"))
		}
		k := m.builderKey(a[0])
		m.side[k] = m.strConcat(m.builderGet(a[0]), m.strLit(string([]byte{byte(r.U)})))
		return IfaceV{}
	})
	add("(*strings.Builder).String", func(m *Machine, _ *Thread, _ *Frame, a []Value, _ ssa.Value) Value {
		return m.builderGet(a[0])
	})

	// base64: uninterpreted encode/decode with ground axioms at each encode site
	add("(*encoding/base64.Encoding).EncodeToString", func(m *Machine, _ *Thread, _ *Frame, a []Value, _ ssa.Value) Value {
		x := m.termOf(a[1])
		if c, ok := m.litValue(x); ok && c == "" {
			return m.strLit("")
		}
		if m.Domain == DomAlgebra {
			return m.ctor("b64", x)
		}
		e := App("uf.b64enc", SString, x)
		key := "b64ax:" + fmt.Sprintf("%p", x)
		if _, seen := m.side[key]; !seen {
			m.side[key] = True
			m.assume(App("uf.b64ok", SBool, e))
			m.assume(Eq(App("uf.b64dec", SString, e), x))
			m.assume(Eq(Eq(e, StrC("")), Eq(x, StrC(""))))
			// padded base64: 4 characters per started group of 3 bytes
			m.assume(mk("=", SBool, strLenInt(e), mk("*", SInt, IntC(4), mk("div", SInt, intAdd(strLenInt(x), IntC(2)), IntC(3)))))
		}
		m.markCharFree(e, "\n\r")
		if n, known := m.lenKnown(x); known {
			if m.klen == nil {
				m.klen = map[*Term]int{}
			}
			m.klen[e] = 4 * ((n + 2) / 3) // implied by the length axiom above
		}
		return e
	})
	// length arithmetic of the padded encodings (StdEncoding / URLEncoding, the ones the codec
	// contract above stands for)
	add("(*encoding/base64.Encoding).DecodedLen", func(m *Machine, _ *Thread, _ *Frame, a []Value, _ ssa.Value) Value {
		n := a[1].(*Term)
		return BVBin("bvmul", BVBin("bvudiv", n, BVC(64, 4)), BVC(64, 3))
	})
	add("(*encoding/base64.Encoding).EncodedLen", func(m *Machine, _ *Thread, _ *Frame, a []Value, _ ssa.Value) Value {
		n := a[1].(*Term)
		return BVBin("bvmul", BVBin("bvudiv", BVBin("bvadd", n, BVC(64, 2)), BVC(64, 3)), BVC(64, 4))
	})
	add("(*encoding/base64.Encoding).DecodeString", func(m *Machine, _ *Thread, _ *Frame, a []Value, _ ssa.Value) Value {
		s := str(a[1])
		if m.Domain == DomAlgebra {
			panic(m.unsupported("base64 decode in the algebra domain"))
		}
		var ok *Term
		if c, isLit := m.litValue(s); isLit && c == "" {
			ok = True
		} else {
			ok = App("uf.b64ok", SBool, s)
		}
		if m.branch("b64ok", ok) {
			dec := App("uf.b64dec", SString, s)
			if c, isLit := m.litValue(s); isLit && c == "" {
				dec = StrC("")
			}
			return TupleV{m.freshBytes(dec), IfaceV{}}
		}
		return TupleV{ByteSlice{Nil: false, T: m.strLit("")}, m.opaqueError("base64.CorruptInputError")}
	})

	// strconv.ParseUint(s, 10, 64)
	add("strconv.ParseUint", func(m *Machine, _ *Thread, _ *Frame, a []Value, _ ssa.Value) Value {
		s := m.needString(str(a[0]), "ParseUint")
		base, bits := m.concInt("parseuint.base", a[1]), m.concInt("parseuint.bits", a[2])
		if base != 10 || bits != 64 {
			panic(m.unsupported("ParseUint with base %d / bitSize %d", base, bits))
		}
		digits := mk("str.in_re", SBool, s, mk("re.+", SRe, mk("re.range", SRe, StrC("0"), StrC("9"))))
		val := mk("str.to_int", SInt, s)
		fits := intLT(val, &Term{Op: "c", S: SInt, Str: "18446744073709551616"})
		if !m.branch("parseuint.digits", digits) {
			return TupleV{BVC(64, 0), m.opaqueError("strconv.NumError.syntax")}
		}
		if m.branch("parseuint.fits", fits) {
			t := mk("int2bv", SBV(64), val)
			t.Str = "(_ int2bv 64)"
			return TupleV{t, IfaceV{}}
		}
		return TupleV{BVC(64, 0), m.opaqueError("strconv.NumError.range")}
	})

	// strconv.ParseInt(s, 10, 64) / strconv.Atoi(s): optional sign, decimal digits, 64-bit range
	parseInt := func(m *Machine, s *Term) Value {
		digit := mk("re.range", SRe, StrC("0"), StrC("9"))
		digits := mk("re.+", SRe, digit)
		sign := mk("re.union", SRe, mk("str.to_re", SRe, StrC("+")), mk("str.to_re", SRe, StrC("-")))
		two63 := &Term{Op: "c", S: SInt, Str: "9223372036854775808"}
		var mag *Term
		neg := False
		switch {
		case m.branch("parseint.digits", mk("str.in_re", SBool, s, digits)):
			mag = mk("str.to_int", SInt, s)
		case m.branch("parseint.signed", mk("str.in_re", SBool, s, mk("re.++", SRe, sign, digits))):
			one := &Term{Op: "c", S: SInt, Str: "1"}
			rest := mk("str.substr", SString, s, one, mk("str.len", SInt, s))
			mag = mk("str.to_int", SInt, rest)
			neg = mk("str.prefixof", SBool, StrC("-"), s)
		default:
			return TupleV{BVC(64, 0), m.opaqueError("strconv.NumError.syntax")}
		}
		// fits: magnitude < 2^63, or exactly 2^63 when negative
		fits := Or(intLT(mag, two63), And(neg, Eq(mag, two63)))
		if !m.branch("parseint.fits", fits) {
			return TupleV{BVC(64, 0), m.opaqueError("strconv.NumError.range")}
		}
		t := mk("int2bv", SBV(64), mag)
		t.Str = "(_ int2bv 64)"
		return TupleV{Ite(neg, BVNeg(t), t), IfaceV{}}
	}
	add("strconv.ParseInt", func(m *Machine, _ *Thread, _ *Frame, a []Value, _ ssa.Value) Value {
		s := m.needString(str(a[0]), "ParseInt")
		base, bits := m.concInt("parseint.base", a[1]), m.concInt("parseint.bits", a[2])
		if base != 10 || (bits != 64 && bits != 0) {
			panic(m.unsupported("ParseInt with base %d / bitSize %d", base, bits))
		}
		return parseInt(m, s)
	})
	add("strconv.Atoi", func(m *Machine, _ *Thread, _ *Frame, a []Value, _ ssa.Value) Value {
		return parseInt(m, m.needString(str(a[0]), "Atoi"))
	})

	// fmt.Sscanf(str, "old %d", &size): the only format the repository uses
	add("fmt.Sscanf", func(m *Machine, _ *Thread, _ *Frame, a []Value, _ ssa.Value) Value {
		format, ok := m.litValue(str(a[1]))
		if !ok || format != "old %d" {
			panic(m.unsupported("fmt.Sscanf with a format other than \"old %%d\""))
		}
		line := m.needString(str(a[0]), "Sscanf")
		args := m.variadicArgs(a[2])
		if len(args) != 1 {
			panic(m.unsupported("Sscanf arity"))
		}
		dst := args[0].(Ptr)
		// line = "old" ws+ digits+ rest, rest not starting with a digit; value of digits < 2^64.
		// (ws = blank or tab; other white-space characters right after "old" are cut as outside the model)
		digit := mk("re.range", SRe, StrC("0"), StrC("9"))
		ws := mk("re.union", SRe, mk("str.to_re", SRe, StrC(" ")), mk("str.to_re", SRe, StrC("\t")))
		odd := mk("re.union", SRe, mk("re.union", SRe, mk("str.to_re", SRe, StrC("\r")), mk("str.to_re", SRe, StrC("\v"))), mk("str.to_re", SRe, StrC("\f")))
		anything := &Term{Op: "re.all", S: SRe}
		oddAfterOld := mk("str.in_re", SBool, line, mk("re.++", SRe, mk("str.to_re", SRe, StrC("old")), mk("re.*", SRe, ws), odd, anything))
		if m.branch("sscanf.oddspace", oddAfterOld) {
			panic(pathEnd{kind: "cut", msg: "Sscanf: \\r, \\v or \\f right after \"old\" (outside the Sscanf contract model)"})
		}
		// decompose with fresh pieces
		wsp := m.fresh("sscanf.ws", SString)
		dg := m.fresh("sscanf.digits", SString)
		rest := m.fresh("sscanf.rest", SString)
		shape := And(Eq(line, mk("str.++", SString, StrC("old"), wsp, dg, rest)),
			And(mk("str.in_re", SBool, wsp, mk("re.+", SRe, ws)),
				And(mk("str.in_re", SBool, dg, mk("re.+", SRe, digit)),
					Not(mk("str.in_re", SBool, rest, mk("re.++", SRe, digit, anything))))))
		val := mk("str.to_int", SInt, dg)
		fits := intLT(val, &Term{Op: "c", S: SInt, Str: "18446744073709551616"})
		// does such a decomposition exist?  (pieces are functionally determined by the line, so
		// asserting the shape on fresh variables is a definition, not a restriction)
		if m.branch("sscanf.shape", shapeExists(line, ws, digit, anything)) {
			m.assume(shape)
			if m.branch("sscanf.fits", fits) {
				t := mk("int2bv", SBV(64), val)
				t.Str = "(_ int2bv 64)"
				m.store(dst, t)
				return TupleV{BVC(64, 1), IfaceV{}}
			}
			return TupleV{BVC(64, 0), m.opaqueError("strconv.ErrRange")}
		}
		return TupleV{BVC(64, 0), m.opaqueError("fmt.scanError")}
	})

	// bufio / io
	add("bufio.NewReader", func(m *Machine, _ *Thread, _ *Frame, a []Value, _ ssa.Value) Value {
		data, set := m.readerSource(a[0])
		set(m.strLit(""))
		return m.newReaderObj(data, "bufio.Reader")
	})
	add("bufio.NewReaderSize", func(m *Machine, _ *Thread, _ *Frame, a []Value, _ ssa.Value) Value {
		data, set := m.readerSource(a[0])
		set(m.strLit(""))
		n := m.concInt("bufio.size", a[1])
		if n < 16 {
			n = 16 // bufio's minimum
		}
		p := m.newReaderObj(data, "bufio.Reader")
		m.side[m.readerKey(p)].(*readerState).size = n
		return p
	})
	add("(*bufio.Reader).ReadLine", func(m *Machine, _ *Thread, _ *Frame, a []Value, _ ssa.Value) Value {
		rs := m.side[m.readerKey(a[0])].(*readerState)
		rs.epoch++
		return m.tagVolatile(rs, m.readLine(rs))
	})
	// (*bufio.Reader).ReadBytes(delim) / ReadString(delim): everything up to and including the
	// first delim (a fresh copy); without a delim the rest of the input together with io.EOF
	readUntil := func(m *Machine, a []Value) (*Term, Value) {
		rs := m.side[m.readerKey(a[0])].(*readerState)
		rs.epoch++
		d, ok := a[1].(*Term)
		if !ok || !d.IsConst() {
			panic(m.unsupported("ReadBytes with a symbolic delimiter"))
		}
		rest := m.needString(rs.rest, "ReadBytes")
		if before, after, ok := m.cutAtByte(rest, byte(d.U)); ok {
			rs.rest = after
			return m.strConcat(before, StrC(string([]byte{byte(d.U)}))), IfaceV{}
		}
		delim := StrC(string([]byte{byte(d.U)}))
		if m.branch("readbytes.found", mk("str.contains", SBool, rest, delim)) {
			idx := mk("str.indexof", SInt, rest, delim, IntC(0))
			n := mk("+", SInt, idx, IntC(1))
			head := mk("str.substr", SString, rest, IntC(0), n)
			rs.rest = mk("str.substr", SString, rest, n, intSub(strLenInt(rest), n))
			return head, IfaceV{}
		}
		rs.rest = m.strLit("")
		return rest, m.errSentinelByName("io.EOF")
	}
	add("(*bufio.Reader).ReadBytes", func(m *Machine, _ *Thread, _ *Frame, a []Value, _ ssa.Value) Value {
		t, err := readUntil(m, a)
		return TupleV{m.freshBytes(t), err}
	})
	add("(*bufio.Reader).ReadString", func(m *Machine, _ *Thread, _ *Frame, a []Value, _ ssa.Value) Value {
		t, err := readUntil(m, a)
		return TupleV{t, err}
	})
	add("io.ReadAll", func(m *Machine, _ *Thread, _ *Frame, a []Value, _ ssa.Value) Value {
		m.bumpEpoch(a[0])
		if m.readerFails(a[0]) {
			// the underlying reader (a socket) failed: partial data, non-nil error
			return TupleV{m.freshBytes(m.fresh("io.partial", m.bytesSort())), m.opaqueError("io.read")}
		}
		data, set := m.readerSource(a[0])
		set(m.strLit(""))
		return TupleV{m.freshBytes(data), IfaceV{}}
	})
	// io.ReadFull(r, buf): fills buf completely or fails. The buffer is an opaque []byte whose
	// allocation the engine saw; every live slice of it shows the bytes read (heap walk).
	add("io.ReadFull", func(m *Machine, _ *Thread, _ *Frame, a []Value, _ ssa.Value) Value {
		m.bumpEpoch(a[0])
		buf, ok := a[1].(ByteSlice)
		if !ok {
			panic(m.unsupported("io.ReadFull into %T", a[1]))
		}
		want := m.bytesLen(buf)
		if buf.Nil || m.isEmptyLit(buf.T) {
			return TupleV{BVC(64, 0), IfaceV{}}
		}
		if buf.Buf == nil || !buf.AtStart || buf.Resliced {
			panic(m.unsupported("io.ReadFull into an opaque []byte of unknown provenance"))
		}
		overwrite := func(nt *Term) {
			old := buf.T
			m.walkValues(func(v Value) Value {
				y, isB := v.(ByteSlice)
				if !isB || y.Buf != buf.Buf || y.Nil {
					return v
				}
				if !structEq(y.T, old, 50) {
					panic(m.unsupported("io.ReadFull into a buffer that has other slices of different extent"))
				}
				y.T = nt
				return y
			})
		}
		if m.readerFails(a[0]) {
			overwrite(m.fresh("io.partial", m.bytesSort()))
			return TupleV{m.fresh("io.readfull.n", SBV(64)), m.opaqueError("io.read")}
		}
		data, set := m.readerSource(a[0])
		have := m.strLen(data)
		if m.branch("io.readfull.enough", BVCmp("bvuge", have, want)) {
			if m.Domain == DomString {
				head := m.strSlice(data, nil, want)
				set(m.strSlice(data, want, nil))
				overwrite(head)
			} else {
				// algebra domain: the split of the stream is an uninterpreted pair (exact when the
				// whole stream is consumed)
				if m.branch("io.readfull.exact", Eq(have, want)) {
					set(m.strLit(""))
					overwrite(data)
				} else {
					m.weak = appendUniq(m.weak, []string{"io.ReadFull of a proper prefix of the stream in the algebra domain"}, 20)
					head := m.fresh("io.readfull.head", m.bytesSort())
					set(m.fresh("io.readfull.rest", m.bytesSort()))
					overwrite(head)
				}
			}
			return TupleV{want, IfaceV{}}
		}
		set(m.strLit(""))
		overwrite(m.fresh("io.partial", m.bytesSort()))
		if m.branch("io.readfull.empty", Eq(have, BVC(64, 0))) {
			return TupleV{BVC(64, 0), m.errSentinelByName("io.EOF")}
		}
		return TupleV{have, m.errSentinelByName("io.ErrUnexpectedEOF")}
	})
	// bytes.Buffer: an appendable, consumable byte queue (zero value ready to use)
	bufState := func(m *Machine, v Value) *readerState {
		p, ok := v.(Ptr)
		if !ok || p.O == nil {
			panic(m.unsupported("bytes.Buffer handle is %T", v))
		}
		key := fmt.Sprintf("reader:%d:%v", p.O.ID, p.Path)
		if st, ok := m.side[key]; ok {
			return st.(*readerState)
		}
		rs := &readerState{rest: m.strLit(""), size: 4096}
		m.side[key] = rs
		return rs
	}
	add("(*bytes.Buffer).Write", func(m *Machine, _ *Thread, _ *Frame, a []Value, _ ssa.Value) Value {
		rs := bufState(m, a[0])
		t := m.termOf(a[1])
		rs.rest = m.strConcat(rs.rest, t)
		return TupleV{m.strLen(t), IfaceV{}}
	})
	add("(*bytes.Buffer).WriteString", func(m *Machine, _ *Thread, _ *Frame, a []Value, _ ssa.Value) Value {
		rs := bufState(m, a[0])
		rs.rest = m.strConcat(rs.rest, str(a[1]))
		return TupleV{m.strLen(str(a[1])), IfaceV{}}
	})
	add("(*bytes.Buffer).Reset", func(m *Machine, _ *Thread, _ *Frame, a []Value, _ ssa.Value) Value {
		bufState(m, a[0]).rest = m.strLit("")
		return nil
	})
	add("(*bytes.Buffer).Bytes", func(m *Machine, _ *Thread, _ *Frame, a []Value, _ ssa.Value) Value {
		return ByteSlice{T: bufState(m, a[0]).rest, Resliced: true}
	})
	add("(*bytes.Buffer).String", func(m *Machine, _ *Thread, _ *Frame, a []Value, _ ssa.Value) Value {
		return bufState(m, a[0]).rest
	})
	add("(*bytes.Buffer).Len", func(m *Machine, _ *Thread, _ *Frame, a []Value, _ ssa.Value) Value {
		return m.strLen(bufState(m, a[0]).rest)
	})
	add("bytes.NewBuffer", func(m *Machine, _ *Thread, _ *Frame, a []Value, _ ssa.Value) Value {
		return m.newReaderObj(m.termOf(a[0]), "bytes.Buffer")
	})
	add(rtPkg+".ReaderDrain", func(m *Machine, _ *Thread, _ *Frame, a []Value, _ ssa.Value) Value {
		data, set := m.readerSource(a[0])
		set(m.strLit(""))
		return ByteSlice{T: data}
	})
	add("strings.ToLower", func(m *Machine, _ *Thread, _ *Frame, a []Value, _ ssa.Value) Value {
		s := str(a[0])
		if c, ok := m.litValue(s); ok {
			return m.strLit(strings.ToLower(c))
		}
		// uninterpreted, idempotent; strings known to be lower case (log IDs) are fixed points
		r := App("uf.toLower", s.S, s)
		m.assume(Eq(App("uf.toLower", s.S, r), r))
		return r
	})
	add("io.LimitReader", func(m *Machine, _ *Thread, _ *Frame, a []Value, _ ssa.Value) Value {
		// a reader over at most the first n bytes of what the underlying reader holds
		data, set := m.readerSource(a[0])
		set(m.strLit(""))
		n := a[1].(*Term)
		var lim *Term
		if data.S.K == KString {
			ni := intOfBV(n)
			lim = Ite(intLE(strLenInt(data), ni), data, mk("str.substr", SString, data, IntC(0), ni))
		} else {
			lim = Ite(BVCmp("bvule", m.strLen(data), n), data, App("uf.prefixN", SBytes, data, n))
		}
		p := m.newReaderObj(lim, "io.LimitedReader")
		return IfaceV{T: m.W.ReaderIfaceType(), V: p}
	})
	add("(*encoding/base64.Encoding).Decode", func(m *Machine, _ *Thread, _ *Frame, a []Value, _ ssa.Value) Value {
		// Decode(dst, src): writes the decoded bytes into the caller's buffer; panics when it is too short
		if m.Domain == DomAlgebra {
			panic(m.unsupported("base64 Decode in the algebra domain"))
		}
		src := m.needString(m.termOf(a[2]), "base64.Decode")
		dstLen := m.lenOf(a[1]).(*Term)
		ok := App("uf.b64ok", SBool, src)
		if !m.branch("b64ok", ok) {
			return TupleV{BVC(64, 0), m.opaqueError("base64.CorruptInputError")}
		}
		dec := App("uf.b64dec", SString, src)
		fits := intLE(strLenInt(dec), intOfBV(dstLen))
		if !m.branch("b64.decode.fits", fits) {
			panic(m.goPanic("base64 Decode: destination buffer too short (index out of range)"))
		}
		m.weak = appendUniq(m.weak, []string{"base64 Decode into a caller buffer (contents not tracked)"}, 20)
		return TupleV{strLen64(dec), IfaceV{}}
	})
	add("bytes.NewReader", func(m *Machine, _ *Thread, _ *Frame, a []Value, _ ssa.Value) Value {
		return m.newReaderObj(m.termOf(a[0]), "bytes.Reader")
	})
	add("strings.NewReader", func(m *Machine, _ *Thread, _ *Frame, a []Value, _ ssa.Value) Value {
		return m.newReaderObj(str(a[0]), "strings.Reader")
	})
	add(rtPkg+".ReaderBytes", func(m *Machine, _ *Thread, _ *Frame, a []Value, _ ssa.Value) Value {
		data, _ := m.readerSource(a[0])
		return ByteSlice{T: data}
	})
	add(rtPkg+".Dec", func(m *Machine, _ *Thread, _ *Frame, a []Value, _ ssa.Value) Value {
		t := a[0].(*Term)
		if t.IsConst() {
			return m.strLit(fmt.Sprintf("%d", t.U))
		}
		if m.Domain == DomAlgebra {
			return m.ctor("itoa0", t)
		}
		return mk("str.from_int", SString, mk("bv2nat", SInt, t))
	})
	add(rtPkg+".AssumeNoCRLF", func(m *Machine, _ *Thread, _ *Frame, a []Value, _ ssa.Value) Value {
		m.markCharFree(m.needString(m.termOf(a[0]), "AssumeNoCRLF"), "\n\r")
		return nil
	})
	add(rtPkg+".AssumeLen", func(m *Machine, _ *Thread, _ *Frame, a []Value, _ ssa.Value) Value {
		m.setLen(m.needString(m.termOf(a[0]), "AssumeLen"), m.concInt("assumelen", a[1]))
		return nil
	})
	add(rtPkg+".LenLE", func(m *Machine, _ *Thread, _ *Frame, a []Value, _ ssa.Value) Value {
		s := m.needString(m.termOf(a[0]), "LenLE")
		return intLE(strLenInt(s), IntC(int64(m.concInt("lenle", a[1]))))
	})
	add(rtPkg+".InRe", func(m *Machine, _ *Thread, _ *Frame, a []Value, _ ssa.Value) Value {
		s := m.needString(m.termOf(a[0]), "InRe")
		kind := m.litArg(a[1], "regexp kind")
		digit := mk("re.range", SRe, StrC("0"), StrC("9"))
		switch kind {
		case "digits+":
			return mk("str.in_re", SBool, s, mk("re.+", SRe, digit))
		case "old-line":
			return mk("str.in_re", SBool, s, mk("re.++", SRe, mk("str.to_re", SRe, StrC("old ")), mk("re.+", SRe, digit)))
		}
		panic(m.unsupported("InRe kind %q", kind))
	})
	add(rtPkg+".ToInt", func(m *Machine, _ *Thread, _ *Frame, a []Value, _ ssa.Value) Value {
		// value of a decimal string as a 64-bit number (caller guarantees digits and range)
		s := m.needString(m.termOf(a[0]), "ToInt")
		t := mk("int2bv", SBV(64), mk("str.to_int", SInt, s))
		t.Str = "(_ int2bv 64)"
		return t
	})
	add(rtPkg+".FitsU64", func(m *Machine, _ *Thread, _ *Frame, a []Value, _ ssa.Value) Value {
		s := m.needString(m.termOf(a[0]), "FitsU64")
		return intLT(mk("str.to_int", SInt, s), &Term{Op: "c", S: SInt, Str: "18446744073709551616"})
	})
}

// shapeExists: line ∈ old ws+ digit+ (ε | nondigit .*)
func shapeExists(line, ws, digit, anything *Term) *Term {
	nondigitFirst := mk("re.++", SRe, mk("re.diff", SRe, &Term{Op: "re.allchar", S: SRe}, digit), anything)
	tail := mk("re.union", SRe, mk("str.to_re", SRe, StrC("")), nondigitFirst)
	return mk("str.in_re", SBool, line, mk("re.++", SRe, mk("str.to_re", SRe, StrC("old")), mk("re.+", SRe, ws), mk("re.+", SRe, digit), tail))
}

// readLine is the contract of bufio.Reader.ReadLine over the reader's remaining data.
func (m *Machine) readLine(rs *readerState) Value {
	rest := m.needString(rs.rest, "ReadLine")
	nonEmpty := false
	for _, pc := range pieces(rest) {
		if pc.IsConst() && pc.Str != "" {
			nonEmpty = true
		}
	}
	if !nonEmpty && m.branch("readline.eof", Eq(rest, StrC(""))) {
		return TupleV{ByteSlice{Nil: true, T: m.strLit("")}, False, m.errSentinelByName("io.EOF")}
	}
	nl := StrC("\n")
	size := rs.size
	// prefixChunk: no newline within the first `size` bytes and at least `size` bytes buffered:
	// ReadLine hands out the full buffer with isPrefix = true (a trailing \r is held back).
	prefixChunk := func() Value {
		chunk := mk("str.substr", SString, rest, IntC(0), IntC(int64(size)))
		if m.branch("readline.prefix.cr", strSuffixOf(StrC("\r"), chunk)) {
			chunk = mk("str.substr", SString, rest, IntC(0), IntC(int64(size-1)))
			rs.rest = mk("str.substr", SString, rest, IntC(int64(size-1)), intSub(strLenInt(rest), IntC(int64(size-1))))
		} else {
			rs.rest = mk("str.substr", SString, rest, IntC(int64(size)), intSub(strLenInt(rest), IntC(int64(size))))
		}
		return TupleV{ByteSlice{T: chunk, Resliced: true}, True, IfaceV{}}
	}
	if before, after, ok := m.cutAtByte(rest, '\n'); ok {
		// the first newline is syntactically determined; the buffer bound is decided from known
		// lengths when possible, by the solver otherwise
		var inbuf bool
		if bl, known := m.lenKnown(before); known {
			inbuf = bl <= size-1
			if !inbuf {
				if head, tail, ok2 := m.splitAt(rest, size); ok2 {
					if ends, k2 := m.endsWithKnown(head, '\r'); k2 && !ends {
						rs.rest = tail
						return TupleV{ByteSlice{T: head, Resliced: true}, True, IfaceV{}}
					}
				}
				return prefixChunk()
			}
		} else {
			inbuf = m.branch("readline.inbuf", intLE(strLenInt(before), IntC(int64(size-1))))
		}
		if inbuf {
			rs.rest = after
			line := before
			if ends, known := m.endsWithKnown(before, '\r'); known {
				if ends {
					ps := pieces(before)
					last := ps[len(ps)-1]
					line = joinPieces(append(append([]*Term{}, ps[:len(ps)-1]...), StrC(last.Str[:len(last.Str)-1])))
				}
			} else {
				cr := strSuffixOf(StrC("\r"), before)
				line = Ite(cr, mk("str.substr", SString, before, IntC(0), intSub(strLenInt(before), IntC(1))), before)
			}
			return TupleV{ByteSlice{T: line, Resliced: true}, False, IfaceV{}}
		}
		return prefixChunk()
	}
	idx := mk("str.indexof", SInt, rest, nl, IntC(0))
	found := strContains(rest, nl)
	inBuf := And(found, intLE(idx, IntC(int64(size-1))))
	if m.branch("readline.found", inBuf) {
		before := mk("str.substr", SString, rest, IntC(0), idx)
		start := intAdd(idx, IntC(1))
		after := mk("str.substr", SString, rest, start, intSub(strLenInt(rest), start))
		rs.rest = after
		// drop one trailing \r
		cr := strSuffixOf(StrC("\r"), before)
		line := Ite(cr, mk("str.substr", SString, before, IntC(0), intSub(strLenInt(before), IntC(1))), before)
		return TupleV{ByteSlice{T: line, Resliced: true}, False, IfaceV{}}
	}
	if m.branch("readline.short", intLT(strLenInt(rest), IntC(int64(size)))) {
		rs.rest = StrC("")
		return TupleV{ByteSlice{T: rest, Resliced: true}, False, IfaceV{}}
	}
	return prefixChunk()
}

// tagVolatile marks the line returned by ReadLine as pointing into the reader's buffer.
func (m *Machine) tagVolatile(rs *readerState, v Value) Value {
	tv, ok := v.(TupleV)
	if !ok {
		return v
	}
	if bs, ok := tv[0].(ByteSlice); ok && !bs.Nil {
		bs.Vol, bs.Epoch = rs, rs.epoch
		tv[0] = bs
	}
	return tv
}

// current returns the contents a byte slice denotes NOW. A ReadLine result used after a later
// read on the same reader is, by bufio's documented contract, no longer valid: its contents are
// arbitrary (the path is marked weak: violations found there need native confirmation).
func (m *Machine) current(b ByteSlice) *Term {
	if b.Vol != nil && b.Vol.epoch != b.Epoch {
		m.weak = appendUniq(m.weak, []string{"use of a bufio.ReadLine result after a later read on the same reader (documented as invalid)"}, 20)
		m.note("a ReadLine result was used after a later read on the same reader")
		return m.fresh("stale.readline.bytes", b.T.S)
	}
	return b.T
}

func (m *Machine) bumpEpoch(v Value) {
	if iv, ok := v.(IfaceV); ok {
		v = iv.V
	}
	if p, ok := v.(Ptr); ok && p.O != nil {
		if st, ok := m.side[fmt.Sprintf("reader:%d:%v", p.O.ID, p.Path)]; ok {
			st.(*readerState).epoch++
		}
	}
}

// readerFails reports whether the reader is a verifrt.StrReader whose FailRead flag is set
// (the HTTP contract sets it nondeterministically for response bodies).
func (m *Machine) readerFails(v Value) bool {
	if iv, ok := v.(IfaceV); ok {
		v = iv.V
	}
	p, ok := v.(Ptr)
	if !ok || p.O == nil {
		return false
	}
	sv, ok := p.O.V.(*StructV)
	if !ok || len(sv.F) < 3 {
		return false
	}
	if t, ok := sv.F[2].(*Term); ok && t.S.K == KBool {
		return m.branch("reader.failread", t)
	}
	return false
}
