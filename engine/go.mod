module wsym

go 1.23.0

require (
	github.com/transparency-dev/witness v0.0.0
	golang.org/x/tools v0.29.0
)

require (
	golang.org/x/mod v0.24.0 // indirect
	golang.org/x/sync v0.13.0 // indirect
)

replace github.com/transparency-dev/witness => /repo
