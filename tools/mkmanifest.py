#!/usr/bin/env python3
"""Regenerates /verif/MANIFEST.json from the table below (kept next to the checks it describes)."""
import json, os, sys

ROOT = os.path.dirname(os.path.dirname(os.path.abspath(__file__)))
BASELINE = json.load(open('/root/.vp/BASELINE.json'))['cmd'] if os.path.exists('/root/.vp/BASELINE.json') else ''

TECH = "bounded symbolic execution of the repository's go/ssa (wsym) with SMT (z3/cvc5) deciding every branch, assertion and cover point"

# id -> (design_ref, level text, level note, technique detail)
CLAIMED = {
 "C01": ("DESIGN.md §4 C01", "One real Witness.Update executed symbolically from an arbitrary stored state (any bytes or nothing per log) with symbolic request; on every accepting path the solver proves old size = stored size, no shrink, equal size implies equal root, and that exactly one consistency verification ran on (stored size, new size, the submitted proof, stored root, new root) and accepted. By induction over accepted updates this is the append-only history; soundness of the verification itself against Merkle tree hashes is proved for all trees up to the size bound in H-VC.", "ideal hash (A-hash); signature checks are the ParseCheckpoint/note.Sign contracts (A-sig); tree sizes in H-VC bounded (8 quick / 32 thorough); in-memory store executed for real, SQL store over a database/sql contract model", TECH + "; one inductive step from an arbitrary pre-state"),
 "C02": ("DESIGN.md §4 C02", "Every path of Update that signs or stores anything is shown to have verified exactly the submitted bytes under the origin and key configured for the named log id; unknown ids are refused before any other effect.", "A-sig: what 'valid under key and origin' means byte-for-byte is the pinned dependency's contract, validated separately", TECH),
 "C03": ("DESIGN.md §4 C03", "On every refusing path the whole store (every configured slot and the log list) is proved equal to the pre-state and the returned bytes are nil or the stored checkpoint, never a Sign result.", "database commit contract for the SQL store", TECH),
 "C04": ("DESIGN.md §4 C04", "On every accepting path exactly one note.Sign call happens, on the note parsed from the submitted bytes, with all configured signers in order; its result is what is stored, returned and read back; the timestamp lies inside the call window.", "byte layout and validity of signatures are note.Sign's contract (A-sig)", TECH),
 "C05": ("DESIGN.md §4 C05", "2 (quick) / 3 (thorough) concurrent real Update/GetCheckpoint operations on one shared store are executed under every interleaving at lock and database-operation granularity (the scheduler's choices are solver-explored decisions); on every schedule and for all request values the solver proves that some sequential order of the operations, run through the reference model, explains every result and the final state, allowing only a storage-conflict error with no effect; deadlock freedom is asserted on every schedule.", "yield points are sync.(RW)Mutex and database/sql operations (code between them is atomic by lock discipline); pool size 1 for SQL; randomised race-detector runs are outside this technique", TECH + "; schedules as nondeterministic choices"),
 "C06": ("DESIGN.md §4 C06", "The real Update over the real sql.go is killed (no deferred calls run) before and after every driver operation of the database contract model; a fresh witness is built over the committed table; the solver proves each log is at its old value or at the cosigned value being written, that an acknowledged update is durable, and that the restarted witness applies the append-only obligations from the committed state.", "relative to A-db (SQLite commits atomically and durably; uncommitted work leaves no trace). Real SIGKILL, the file system and the cgo driver are not encoded.", TECH + "; crash position as a nondeterministic choice"),
 "C07": ("DESIGN.md §4 C07", "One real Update under every subset of failing storage calls — interface level (WriteOps/GetLatest/Set/Close through a wrapping store) and driver level (every database/sql call of the contract model) — followed by a fault-free read and a fault-free second Update: accepted implies the read returns the same bytes, a failed read of the previous checkpoint never leads to signing, no transaction or write handle stays open (the follow-up on a one-connection pool would otherwise be reported as deadlock), and the second update obeys the reference from the last committed state.", "A-db; error values are representative (plain error, Unavailable, Internal)", TECH + "; fault pattern as nondeterministic choices"),
 "C08": ("DESIGN.md §4 C08", "(a) Invariant preservation: after every accepted update the stored bytes verify again under the log's key (so nothing stored can fail its own next verification). (b) From any state whose stored checkpoint belongs to the honest log, an honest step (sizes up to the bound, proof produced by the real tlog.ProveTree, real VerifyConsistency inlined) is accepted. One listed known finding (stored size 0).", "tree sizes bounded (8 quick / 32 thorough); signers assumed not to fail", TECH),
 "C09": ("DESIGN.md §4 C09", "The (bytes, error) result of the real Update is compared, for all 64-bit sizes, with an executable reference of the tlog-witness rule order written in the harness; the proof verdict is tied to the real verifier by H-VC.", "reference model is hand-written from the spec; carve-outs exactly as in the property text", TECH + "; differential against a reference model"),
 "C10": ("DESIGN.md §4 C10", "One request through the real ServeHTTP, handleUpdate, witnessAdapter, Witness.Update and store (a composition the test suite never runs), with handler and witness built from one symbolic configuration through the repository's own AsLogMap / config.NewLog; status, content type and body are compared with the protocol table for every verdict class, from an arbitrary stored state; 200 is shown to occur only when the submitted checkpoint was cosigned and stored, with the witness's signature line as body.", "parseBody replaced by its contract (C11); limiter answer arbitrary; TLS/HTTP2 leg not encoded; signature bytes are note.Sign's contract", TECH),
 "C11": ("DESIGN.md §4 C11", "The real parseBody, Proof.Marshal/Unmarshal and the feedbastion body writer are executed over SMT-LIB strings (cvc5): (i) a body written from an arbitrary decimal old size < 2^64, k non-empty hashes and arbitrary checkpoint bytes parses back to exactly those; (ii) for an arbitrary body (<= 4000 bytes) success implies the first line is exactly 'old <decimal fitting 64 bits>', every proof line is accepted by the base64 decoder, the blank separator exists and the checkpoint is the rest; (iii) Unmarshal(Marshal(p)) = p for k = 0..K; (iv) the writer's output parses back.", "k <= 8 quick / 32 thorough hashes of symbolic length 1..64 for the round trips, every pair of concrete hash lengths 1..64 for two proof lines, <= 2 / 3 proof lines for the arbitrary-body direction; base64 is an uninterpreted codec (dec(enc x) = x, enc x free of CR/LF); ReadLine's 4096-byte buffer case is outside the bound", TECH + "; theory of strings"),
 "C12": ("DESIGN.md §4 C12", "Frame condition: an update naming log a leaves every other slot bit-identical on every path.", "identity derivations (config/bastion/distributor) checked in H-ID", TECH),
 "C13": ("DESIGN.md §4 C13", "The real FeedOnce / submitToWitness (including the retried closure) run against a recording witness stub with arbitrary answers, an arbitrary log and the backoff.Retry contract; every Update the feeder issues is shown to name the configured log, carry the verified bytes, use the size of the latest checkpoint reported in the same attempt as old size, and carry the proof fetched in that attempt for exactly (latest -> submitted); never when the witness is ahead; success returns the witness's bytes; a context end stops with an error.", "attempts <= 2 quick / 3 thorough; back-off timing not modelled", TECH),
 "C15": ("DESIGN.md §4 C15", "The real DistributeOnce / distributeForLog over up to 3 logs with arbitrary witness answers and arbitrary distributor answers (status, transport error, redirect): a PUT happens iff the witness's bytes verify under the log's key and origin and carry the witness signature; method, exact URL and exact body are proved; all logs are attempted; the overall error and the success counter are compared with an independent account of the answers.", "url.Parse(x).String() modelled as x; PathEscape uninterpreted; <= 2 / 3 logs", TECH + "; theory of strings for URLs"),
 "C16": ("DESIGN.md §4 C16", "The real getCheckpoint / getLogs handlers over the real witness and both stores, before and after one arbitrary update, and the real client GetLatestCheckpoint over an arbitrary HTTP answer: 200 with exactly the stored bytes, 404 while nothing is held or for unknown ids, log list = ids with a stored checkpoint (a refused first submission adds none), client maps 404 to os.ErrNotExist.", "mux route matching not encoded; list order abstracted to insertion order", TECH),
 "C18": ("DESIGN.md §4 C18", "For every tile level >= 0, every index 0..2^63-1 and width 1..256 the URL requested by the real ReadTiles -> TileData -> tilePath -> HTTPFetcher path equals base + '/' + the real tlog.Tile.Path(), decided for all values at once (7 path levels unrolled, checked by the loop bound); the reference prover's proofs are accepted by the real verifier for all size pairs up to the bound.", "decimal formatting is an uninterpreted function shared by both sides; tile byte decoding in tlog.TileHashReader is outside the claim", TECH),
 "C19": ("DESIGN.md §4 C19", "Every harness arms all implicit panic sites (nil dereference, index and slice bounds, failed type assertion, division by zero, slice-to-array conversion, explicit panic) and loop/recursion bounds; a feasible panic path or an exceeded bound is a violation with a solver model. Dedicated harnesses: the real ServeHTTP + parseBody on arbitrary bytes with arbitrary witness answers (status always documented, exactly one answer), Proof.Unmarshal on arbitrary bytes, dataToLeaves on arbitrary bytes, one full real feed cycle of the SumDB and Pixel feeders (FeedLog) against log-signed checkpoints with hostile sizes and root-hash lengths running into the real tlog.ProveTree, the Pixel tile reader, plus the feeder, distributor and bastion harnesses of C13/C15/C10.", "bounded; panics inside contract-modelled library calls, socket timeouts, HTTP/2, JSON decoding are outside; this is not fuzzing", TECH + "; unwinding assertions"),
 "C20": ("DESIGN.md §4 C20", "Counter increments recorded through a recording MetricFactory are compared with the outcome on every path: attempt iff known log, success iff accepted, invalid-consistency iff ErrInvalidProof, inconsistent iff ErrRootMismatch, no others, label = log id.", "per-step statement; histories follow by summation", TECH),
}

NA = {
 "C14": "whole-program liveness over time (tickers, repeated poll cycles, restarts) on logs served as real tlog tiles: the bytes inside tiles and tlog.TileHashReader are a contract here and a feed cycle is analysed one at a time, so 'catches up within a bounded number of poll intervals' has no encoding within reach (the seeded change C18g - a tile cache that only misbehaves in the second cycle - is the documented instance). Its parts are decided piecewise: wiring of the real omniwitness.Main in C12 (H-WIRE), one feed cycle in C13, serving in C16, tile addressing and proof completeness in C18, crash/restart of the store in C06",
 "C17": "ranges over the concrete entries of two YAML files: no quantified variable for a solver to decide, and the parsers involved (yaml, key parsing, url) are outside the encodable set",
}

PENDING = "check not built yet in this round (planned, see DESIGN.md §4)"

def main():
    props = [json.loads(l) for l in open(os.path.join(ROOT, 'properties.jsonl'))]
    checks = []
    na = []
    for p in props:
        pid = p['id']
        if pid in CLAIMED:
            ref, text, note, tech = CLAIMED[pid]
            checks.append({
                "property_id": pid,
                "quick_cmd": f"./check {pid} --tier quick",
                "thorough_cmd": f"./check {pid} --tier thorough",
                "evidence_file": f"/verif/evidence/{pid}.json",
                "replay_cmd_template": "cat {path}/violation.json",
                "engine": "wsym",
                "level_claimed": {"category": "model_checking", "text": text, "design_ref": ref},
                "level_note": note,
                "technique": tech,
            })
        else:
            na.append({"property_id": pid, "reason": NA.get(pid, PENDING)})
    m = {
        "version": 1,
        "setup_cmd": "./setup.sh",
        "hooks": {
            "guard": "verif",
            "enable": "no source hooks: harnesses and the verifrt runtime are injected with go/packages Overlay (build tag verifsym) when the engine loads /repo",
            "baseline_off_cmd": BASELINE,
            "source_commits": [],
            "add_only": True,
        },
        "engines": [{"name": "wsym", "path": "/verif/engine", "serves_properties": sorted(CLAIMED), "kind_free_text": "bounded symbolic executor for go/ssa written for this task; SMT-LIB2 over pipes to z3 4.8.12 / cvc5 1.0"}],
        "checks": checks,
        "not_applicable": na,
        "notes": "All checks rebuild their encoding from /repo's working tree on every run. Exit 0 = holds within stated bounds, 1 = VIOLATION, 2 = inconclusive (unsupported construct, solver unknown, vacuous harness, native replay disagreeing with the encoding). The H-UPD based checks (C01-C04, C08, C09, C12, C20) additionally rebuild every reachable verdict class natively (real keys, notes, Merkle trees, proofs) and compare the real build's behaviour with the engine's prediction on every run (coverage.traces_validated_against_impl). Self-checks of the machinery: ./check litmus (SSA semantics), ./check vc (real consistency verifier vs algebra / tlog), ./check pcp (ParseCheckpoint contract vs the real code), ./check xsolver (z3 4.8.12 / z3 5.1.0 / cvc5 agreement). Known findings: known_findings.json; native reproductions: native/; independently seeded changes and what caught them: seeded/ and DESIGN.md section 8.",
    }
    json.dump(m, open(os.path.join(ROOT, 'MANIFEST.json'), 'w'), indent=1)
    print("MANIFEST.json:", len(checks), "checks,", len(na), "not applicable")

if __name__ == '__main__':
    main()
