#!/bin/bash
# tools/seedcheck.sh <seed-out-dir> <demo-dest-dir-relative-to-repo> <check-id> [<check-id>...]
# Confirms an independently seeded change (compiles, suite passes, demo fails with / passes without)
# in a scratch worktree, then runs the named checks against it in /repo and reverts.
set -u
out="$1"; dest="$2"; shift 2
export GOFLAGS=-mod=mod GOPROXY=off GOSUMDB=off GOTOOLCHAIN=local
wt=/tmp/sc.$$
git -C /repo worktree add -q "$wt" HEAD || exit 2
trap 'git -C /repo worktree remove --force "$wt" >/dev/null 2>&1' EXIT
cd "$wt"
cp /repo/go.sum "$wt/go.sum"
git apply "$out/patch.diff" || { echo "SEED: patch does not apply"; exit 2; }
go build ./... || { echo "SEED: does not build"; exit 2; }
if go test -count=1 ./... >/tmp/sc.$$.log 2>&1; then echo "SEED: suite passes with the change"; else echo "SEED: SUITE FAILS with the change"; grep -v "^ok\|no test files" /tmp/sc.$$.log | head; fi
for f in "$out"/*zz_demo*; do cp "$f" "$wt/$dest/"; done
demo=$(ls "$out" | grep zz_demo | head -1)
if go test -count=1 -run 'Demo|demo|ZZ' "./$dest/" >/tmp/sc.$$.log 2>&1; then echo "SEED: demo PASSES with the change (unexpected)"; else echo "SEED: demo fails with the change (expected)"; fi
git apply -R "$out/patch.diff"
if go test -count=1 -run 'Demo|demo|ZZ' "./$dest/" >/tmp/sc.$$.log 2>&1; then echo "SEED: demo passes without the change (expected)"; else echo "SEED: demo FAILS without the change (unexpected)"; tail -5 /tmp/sc.$$.log; fi
rm -f /tmp/sc.$$.log
cd "$wt" && git apply "$out/patch.diff" && rm -f "$wt/$dest"/*zz_demo* && cd /verif
for c in "$@"; do
  WSYM_REPO="$wt" WSYM_NO_EVIDENCE=1 ./check "$c" > .work/seed.$c.log 2>&1; rc=$?
  echo "CHECK $c exit=$rc: $(grep -c '^VIOLATION' .work/seed.$c.log) violations; $(grep '^  assertion' .work/seed.$c.log | sort | uniq -c | sort -rn | head -3 | tr '\n' ';')"
  tail -1 .work/seed.$c.log
done
