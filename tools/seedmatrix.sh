#!/bin/bash
# tools/seedmatrix.sh [names...]: runs, for every kept seeded change, the check that is recorded
# as catching it (meta.json caught_by[0], else the property it breaks) against a scratch worktree
# with the change applied; prints "<seed> <check> exit=<rc>". WSYM_STOP_ON_VIOLATION ends a
# check at the first run with a solid violation.
cd /verif
names="$@"; [ -z "$names" ] && names=$(ls seeded)
for n in $names; do
  id=$(python3 -c "
import json,re
m=json.load(open('seeded/$n/meta.json'))
c=m.get('caught_by') or []
x=re.match(r'(C\d\d)', c[0]) if c else None
print(x.group(1) if x else m['breaks'])")
  rc=$(WSYM_STOP_ON_VIOLATION=1 tools/seedrun.sh /verif/seeded/$n/patch.diff $id 2>&1 | grep '^exit=' | tail -1)
  echo "$n $id $rc"
done
