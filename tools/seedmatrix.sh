#!/bin/bash
# tools/seedmatrix.sh [names...]: runs, for every kept seeded change, the check of the property it
# breaks against a scratch worktree with the change applied; prints "<seed> <check> exit=<rc>".
cd /verif
names="$@"; [ -z "$names" ] && names=$(ls seeded)
for n in $names; do
  id=$(python3 -c "import json;print(json.load(open('seeded/$n/meta.json'))['breaks'])")
  rc=$(WSYM_STOP_ON_VIOLATION=1 WSYM_NO_REPLAY= tools/seedrun.sh /verif/seeded/$n/patch.diff $id 2>&1 | grep '^exit=' | tail -1)
  echo "$n $id $rc"
done
