#!/bin/bash
# tools/seedrun.sh <patch.diff> <check-id> [check args...]
# Applies a seeded change in a scratch worktree of /repo (never /repo itself), runs one check
# against it without touching committed evidence, and removes the worktree.
set -u
patch="$1"; shift
export GOFLAGS=-mod=mod GOPROXY=off GOSUMDB=off GOTOOLCHAIN=local
wt=/tmp/sr.$$
git -C /repo worktree add -q "$wt" HEAD || exit 2
trap 'git -C /repo worktree remove --force "$wt" >/dev/null 2>&1' EXIT
cp /repo/go.sum "$wt/go.sum"
git -C "$wt" apply "$patch" || { echo "patch does not apply"; exit 2; }
cd /verif
WSYM_REPO="$wt" WSYM_NO_EVIDENCE=1 ./check "$@"
echo "exit=$?"
