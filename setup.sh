#!/bin/bash
# Builds the engine offline from files on disk.
set -e
cd "$(dirname "$0")"
export GOFLAGS=-mod=mod GOPROXY=off GOSUMDB=off GOTOOLCHAIN=local CGO_ENABLED=0
mkdir -p bin .work evidence
cd engine
go build -o ../bin/wsym ./cmd/wsym
