package bastion

// TestReplayParseBody confirms solver models of C11 round-trip violations against the real
// parseBody: the body is rebuilt from the model's old-size digits, hashes and checkpoint bytes
// and parsed twice — delivered in one piece and one byte at a time (which forces the reader to
// refill its buffer at every read) — and the violation counts as confirmed when either parse
// fails to give back what was written.

import (
	"bytes"
	"encoding/base64"
	"encoding/json"
	"fmt"
	"os"
	"sort"
	"strconv"
	"strings"
	"testing"
	"testing/iotest"
)

type pbScenario struct {
	Cover string            `json:"cover"`
	Model map[string]string `json:"model"`
}

// smtString decodes an SMT-LIB string literal as printed by the solvers ("" for a quote, \u{..}).
func smtString(v string) ([]byte, bool) {
	v = strings.TrimSpace(v)
	if len(v) < 2 || v[0] != '"' || v[len(v)-1] != '"' {
		return nil, false
	}
	v = v[1 : len(v)-1]
	var out []byte
	for i := 0; i < len(v); i++ {
		switch {
		case v[i] == '"' && i+1 < len(v) && v[i+1] == '"':
			out = append(out, '"')
			i++
		case strings.HasPrefix(v[i:], `\u{`):
			j := strings.Index(v[i:], "}")
			n, err := strconv.ParseUint(v[i+3:i+j], 16, 32)
			if err != nil || n > 255 {
				return nil, false
			}
			out = append(out, byte(n))
			i += j
		default:
			out = append(out, v[i])
		}
	}
	return out, true
}

func TestReplayParseBody(t *testing.T) {
	path := os.Getenv("WSYM_REPLAY_JSON")
	if path == "" {
		t.Skip("WSYM_REPLAY_JSON not set")
	}
	raw, err := os.ReadFile(path)
	if err != nil {
		t.Fatal(err)
	}
	var scs []pbScenario
	if err := json.Unmarshal(raw, &scs); err != nil {
		t.Fatal(err)
	}
	for idx, sc := range scs {
		m := sc.Model
		digits := []byte("7")
		if d, ok := m["digits"]; ok {
			b, ok := smtString(d)
			if !ok {
				fmt.Printf("SCENARIO %d %s unreplayable (digits)\n", idx, sc.Cover)
				continue
			}
			digits = b
		}
		var hnames []string
		for k := range m {
			if k == "h" || strings.HasPrefix(k, "h#") {
				hnames = append(hnames, k)
			}
		}
		sort.Slice(hnames, func(i, j int) bool {
			ni, nj := 1, 1
			if len(hnames[i]) > 2 {
				ni, _ = strconv.Atoi(hnames[i][2:])
			}
			if len(hnames[j]) > 2 {
				nj, _ = strconv.Atoi(hnames[j][2:])
			}
			return ni < nj
		})
		var hs [][]byte
		bad := false
		for _, k := range hnames {
			b, ok := smtString(m[k])
			if !ok || len(b) == 0 {
				bad = true
			}
			hs = append(hs, b)
		}
		cp, ok := smtString(m["cp"])
		if bad || !ok {
			fmt.Printf("SCENARIO %d %s unreplayable (model values)\n", idx, sc.Cover)
			continue
		}
		want, err := strconv.ParseUint(string(digits), 10, 64)
		if err != nil {
			fmt.Printf("SCENARIO %d %s unreplayable (old size)\n", idx, sc.Cover)
			continue
		}
		body := append([]byte("old "), digits...)
		body = append(body, '\n')
		for _, h := range hs {
			body = append(body, []byte(base64.StdEncoding.EncodeToString(h)+"\n")...)
		}
		body = append(body, '\n')
		body = append(body, cp...)
		failed := ""
		for _, mode := range []string{"whole", "one-byte-reads"} {
			var n uint64
			var p [][]byte
			var gotCP []byte
			var err error
			if mode == "whole" {
				n, p, gotCP, err = parseBody(bytes.NewReader(body))
			} else {
				n, p, gotCP, err = parseBody(iotest.OneByteReader(bytes.NewReader(body)))
			}
			okRT := err == nil && n == want && len(p) == len(hs) && bytes.Equal(gotCP, cp)
			if okRT {
				for i := range hs {
					okRT = okRT && bytes.Equal(p[i], hs[i])
				}
			}
			if !okRT {
				failed = "C11(" + mode + ")"
				break
			}
		}
		fmt.Printf("SCENARIO %d %s match=true oracles=%s\n", idx, sc.Cover, failed)
	}
	fmt.Printf("REPLAYED 0 cover witnesses against the real build\n")
}
