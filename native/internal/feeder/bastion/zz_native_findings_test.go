package bastion

import (
	"strings"
	"testing"
)

// F2: bodies whose first line is not exactly "old <decimal>" must be refused, not partly understood.
// The inputs are the ones the solver produced (and their relatives).
func TestNativeF2LenientOldSizeLine(t *testing.T) {
	for _, line := range []string{"old\t0", "old  0", "old 5junk", "old 0x10", "old 1_0", "old 5 6", "old +5", "old 18446744073709551616", "old5", "old "} {
		n, _, _, err := parseBody(strings.NewReader(line + "\n\ncheckpoint"))
		if err == nil {
			t.Errorf("F2 reproduced: size line %q accepted as old size %d", line, n)
		}
	}
	for _, tc := range []struct {
		line string
		want uint64
	}{{"old 0", 0}, {"old 18446744073709551615", 18446744073709551615}, {"old 007", 7}} {
		n, _, _, err := parseBody(strings.NewReader(tc.line + "\n\ncheckpoint"))
		if err != nil || n != tc.want {
			t.Errorf("well-formed size line %q: got (%d, %v), want %d", tc.line, n, err, tc.want)
		}
	}
}
