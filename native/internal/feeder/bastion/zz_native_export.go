package bastion

import (
	"net/http"

	"github.com/transparency-dev/witness/internal/config"
	"github.com/transparency-dev/witness/internal/feeder"
	"golang.org/x/mod/sumdb/note"
	"golang.org/x/time/rate"
)

// NativeNewHandler builds the unexported add-checkpoint handler as FeedBastion does (test overlay only).
func NativeNewHandler(w feeder.Witness, logs []config.Log, witV note.Verifier) http.Handler {
	return NativeNewHandlerLimited(w, logs, witV, true)
}

// NativeNewHandlerLimited: allow=false builds a handler whose rate limiter refuses every request.
func NativeNewHandlerLimited(w feeder.Witness, logs []config.Log, witV note.Verifier, allow bool) http.Handler {
	initMetrics()
	lim := rate.NewLimiter(1000, 1000)
	if !allow {
		lim = rate.NewLimiter(0, 0)
	}
	h := &addHandler{w: w, logs: make(map[string]config.Log), witVerifier: witV, limiter: lim}
	for _, l := range logs {
		h.logs[l.ID] = l
	}
	return h
}
