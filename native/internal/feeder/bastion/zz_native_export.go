package bastion

import (
	"net/http"

	"github.com/transparency-dev/witness/internal/config"
	"github.com/transparency-dev/witness/internal/feeder"
	"golang.org/x/mod/sumdb/note"
	"golang.org/x/time/rate"
)

// NativeNewHandler builds the unexported add-checkpoint handler as FeedBastion does (test overlay only).
func NativeNewHandler(w feeder.Witness, logs []config.Log, witV note.Verifier) http.Handler {
	initMetrics()
	h := &addHandler{w: w, logs: make(map[string]config.Log), witVerifier: witV, limiter: rate.NewLimiter(1000, 1000)}
	for _, l := range logs {
		h.logs[l.ID] = l
	}
	return h
}
