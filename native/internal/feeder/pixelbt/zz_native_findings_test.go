package pixelbt

import (
	"bytes"
	"context"
	"io"
	"net/http"
	"testing"
	"time"

	"github.com/transparency-dev/formats/log"
	"github.com/transparency-dev/witness/internal/config"
	"golang.org/x/mod/sumdb/note"
)

type rt func(*http.Request) (*http.Response, error)

func (f rt) RoundTrip(r *http.Request) (*http.Response, error) { return f(r) }

type stubWitness struct{ latest []byte }

func (s stubWitness) GetLatestCheckpoint(ctx context.Context, logID string) ([]byte, error) {
	return s.latest, nil
}
func (s stubWitness) Update(ctx context.Context, logID string, oldSize uint64, newCP []byte, proof [][]byte) ([]byte, error) {
	return newCP, nil
}

// F7: a log-signed checkpoint with a size above 2^62 makes the feeder spin forever inside
// tlog (maxpow2 overflows), ignoring its context.
func TestNativeF7HugeSizeSpins(t *testing.T) {
	const origin = "pixel.example/native"
	sk, vk, _ := note.GenerateKey(nil, origin)
	s, _ := note.NewSigner(sk)
	v, _ := note.NewVerifier(vk)
	sign := func(size uint64) []byte {
		cp := log.Checkpoint{Origin: origin, Size: size, Hash: bytes.Repeat([]byte{7}, 32)}
		b, err := note.Sign(&note.Note{Text: string(cp.Marshal())}, s)
		if err != nil {
			t.Fatal(err)
		}
		return b
	}
	huge := sign(1<<62 + 1)
	client := &http.Client{Transport: rt(func(r *http.Request) (*http.Response, error) {
		if r.URL.Path == "/checkpoint.txt" {
			return &http.Response{StatusCode: 200, Body: io.NopCloser(bytes.NewReader(huge)), Request: r}, nil
		}
		return &http.Response{StatusCode: 404, Body: io.NopCloser(bytes.NewReader(nil)), Request: r}, nil
	})}
	l := config.Log{ID: "id", Origin: origin, Verifier: v, URL: "https://pixel.example/"}
	ctx, cancel := context.WithTimeout(context.Background(), 500*time.Millisecond)
	defer cancel()
	done := make(chan error, 1)
	go func() { done <- FeedLog(ctx, l, stubWitness{latest: sign(1)}, client, 0) }()
	select {
	case err := <-done:
		if err == nil {
			t.Fatalf("feed cycle unexpectedly succeeded")
		}
		t.Logf("feed cycle ended with an error, as it should: %v", err)
	case <-time.After(4 * time.Second):
		t.Fatalf("F7 reproduced: feed cycle still running 3.5 s after its context expired (spinning in tlog.maxpow2)")
	}
}
