package witness

// Native reproductions of the findings the solver produced (run with
// /verif/native/run.sh, which injects this file into /repo by -overlay).

import (
	"context"
	"errors"
	"fmt"
	"strings"
	"testing"

	"github.com/transparency-dev/formats/log"
	f_note "github.com/transparency-dev/formats/note"
	"github.com/transparency-dev/merkle/rfc6962"
	"github.com/transparency-dev/witness/internal/persistence/inmemory"
	"github.com/transparency-dev/witness/monitoring"
	"golang.org/x/mod/sumdb/note"
)

func nativeWitness(t *testing.T) (*Witness, note.Signer, note.Verifier) {
	t.Helper()
	monitoring.SetMetricFactory(monitoring.InertMetricFactory{})
	lsk, lvk, _ := note.GenerateKey(nil, "log.example/native")
	ls, _ := note.NewSigner(lsk)
	lv, _ := note.NewVerifier(lvk)
	wsk, _, _ := note.GenerateKey(nil, "witness.example")
	s0, _ := note.NewSigner(wsk)
	s1, err := f_note.NewSignerForCosignatureV1(wsk)
	if err != nil {
		t.Fatal(err)
	}
	w, err := New(Opts{Persistence: inmemory.NewPersistence(), Signers: []note.Signer{s0, s1},
		KnownLogs: map[string]LogInfo{"L": {SigV: lv, Origin: "log.example/native", Hasher: rfc6962.DefaultHasher}}})
	if err != nil {
		t.Fatal(err)
	}
	return w, ls, lv
}

func nativeCP(t *testing.T, s note.Signer, size uint64, root []byte) []byte {
	t.Helper()
	cp := log.Checkpoint{Origin: "log.example/native", Size: size, Hash: root}
	b, err := note.Sign(&note.Note{Text: string(cp.Marshal())}, s)
	if err != nil {
		t.Fatal(err)
	}
	return b
}

// F5: a log-signed checkpoint padded with junk signature lines is accepted, and the
// cosigned result can then never be re-opened: every later honest update fails.
func TestNativeF5PaddedSignatureBlockWedge(t *testing.T) {
	w, ls, _ := nativeWitness(t)
	h := rfc6962.DefaultHasher
	l0 := h.HashLeaf([]byte("a"))
	cp1 := nativeCP(t, ls, 1, l0)
	padded := string(cp1)
	for i := 0; i < 99; i++ {
		// well-formed signature lines by unknown keys: ignored by note.Open
		padded += fmt.Sprintf("— junk%d AAAAAAAA\n", i)
	}
	_, err1 := w.Update(context.Background(), "L", 0, []byte(padded), nil)
	l1 := h.HashLeaf([]byte("b"))
	cp2 := nativeCP(t, ls, 2, h.HashChildren(l0, l1))
	_, err2 := w.Update(context.Background(), "L", 1, cp2, [][]byte{l1})
	t.Logf("padded first submission: err=%v; honest 1->2 step: err=%v", err1, err2)
	if err1 == nil && err2 != nil && strings.Contains(err2.Error(), "couldn't parse stored checkpoint") {
		t.Fatalf("F5 reproduced: the witness stored a checkpoint it cannot re-open; honest step refused: %v", err2)
	}
	if err2 != nil {
		t.Fatalf("the honest log cannot move the witness forward after the padded submission: %v", err2)
	}
}

// F4: after a first checkpoint of size 0 every honest growth step is refused.
func TestNativeF4SizeZeroWedge(t *testing.T) {
	w, ls, _ := nativeWitness(t)
	h := rfc6962.DefaultHasher
	if _, err := w.Update(context.Background(), "L", 0, nativeCP(t, ls, 0, h.EmptyRoot()), nil); err != nil {
		t.Fatal(err)
	}
	l0, l1 := h.HashLeaf([]byte("a")), h.HashLeaf([]byte("b"))
	_, err := w.Update(context.Background(), "L", 0, nativeCP(t, ls, 2, h.HashChildren(l0, l1)), [][]byte{})
	if err != nil {
		t.Fatalf("F4 reproduced: honest 0->2 step with the (empty) correct proof refused: %v", err)
	}
}

// F8: size 0 -> size 0 with a non-empty proof must be ErrInvalidProof with the stored checkpoint.
func TestNativeF8SizeZeroRefreshWithProof(t *testing.T) {
	w, ls, _ := nativeWitness(t)
	h := rfc6962.DefaultHasher
	cp0 := nativeCP(t, ls, 0, h.EmptyRoot())
	if _, err := w.Update(context.Background(), "L", 0, cp0, nil); err != nil {
		t.Fatal(err)
	}
	out, err := w.Update(context.Background(), "L", 0, cp0, [][]byte{h.HashLeaf([]byte("x"))})
	if !errors.Is(err, ErrInvalidProof) || out == nil {
		t.Fatalf("F8 reproduced: got (%d bytes, %v), want (stored checkpoint, ErrInvalidProof)", len(out), err)
	}
}

// F3: the empty proof must survive Marshal/Unmarshal.
func TestNativeF3EmptyProofRoundTrip(t *testing.T) {
	for _, p := range []Proof{nil, {}} {
		var q Proof
		if err := q.Unmarshal([]byte(p.Marshal())); err != nil {
			t.Fatalf("F3 reproduced: Unmarshal(Marshal(empty proof)) failed: %v", err)
		}
		if len(q) != 0 {
			t.Fatalf("got %d hashes, want 0", len(q))
		}
	}
}
