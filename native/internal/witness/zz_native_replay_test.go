package witness

// TestReplayCovers is the translator-validation step of the H-UPD checks: for every
// verdict class the symbolic run found reachable, the solver's model (sizes, validity
// flags, root relation, proof verdict) is turned into REAL keys, signed notes, Merkle
// trees and consistency proofs, the real Update runs on the real in-memory store, and the
// observed (error, bytes) class must equal what the engine predicted for that path.

import (
	"bytes"
	"context"
	"encoding/json"
	"fmt"
	"os"
	"strconv"
	"strings"
	"testing"

	"github.com/transparency-dev/formats/log"
	f_note "github.com/transparency-dev/formats/note"
	"github.com/transparency-dev/merkle/rfc6962"
	"github.com/transparency-dev/witness/internal/persistence/inmemory"
	"github.com/transparency-dev/witness/monitoring"
	"golang.org/x/mod/sumdb/note"
	"golang.org/x/mod/sumdb/tlog"
)

type replayScenario struct {
	Cover string            `json:"cover"`
	Model map[string]string `json:"model"`
}

func rU(m map[string]string, k string) uint64 {
	v, ok := m[k]
	if !ok {
		return 0
	}
	v = strings.TrimSpace(v)
	if strings.HasPrefix(v, "#x") {
		u, _ := strconv.ParseUint(v[2:], 16, 64)
		return u
	}
	if strings.HasPrefix(v, "#b") {
		u, _ := strconv.ParseUint(v[2:], 2, 64)
		return u
	}
	return 0
}

func rB(m map[string]string, k string) bool { return strings.TrimSpace(m[k]) == "true" }

// tree helpers over tlog (reference implementation)
type memHashes []tlog.Hash

func (h memHashes) ReadHashes(ix []int64) ([]tlog.Hash, error) {
	out := make([]tlog.Hash, len(ix))
	for i, x := range ix {
		out[i] = h[x]
	}
	return out, nil
}

func buildTree(t *testing.T, tag string, n uint64) (memHashes, func(uint64) []byte) {
	var hs memHashes
	for i := uint64(0); i < n; i++ {
		add, err := tlog.StoredHashes(int64(i), []byte(fmt.Sprintf("%s-leaf-%d", tag, i)), hs)
		if err != nil {
			t.Fatal(err)
		}
		hs = append(hs, add...)
	}
	root := func(size uint64) []byte {
		if size == 0 {
			return rfc6962.DefaultHasher.EmptyRoot()
		}
		h, err := tlog.TreeHash(int64(size), hs)
		if err != nil {
			t.Fatal(err)
		}
		return h[:]
	}
	return hs, root
}

func TestReplayCovers(t *testing.T) {
	path := os.Getenv("WSYM_REPLAY_JSON")
	if path == "" {
		t.Skip("WSYM_REPLAY_JSON not set")
	}
	raw, err := os.ReadFile(path)
	if err != nil {
		t.Fatal(err)
	}
	var scs []replayScenario
	if err := json.Unmarshal(raw, &scs); err != nil {
		t.Fatal(err)
	}
	monitoring.SetMetricFactory(monitoring.InertMetricFactory{})
	const origin = "log.example/replay"
	lsk, lvk, _ := note.GenerateKey(nil, origin)
	ls, _ := note.NewSigner(lsk)
	lv, _ := note.NewVerifier(lvk)
	osk, _, _ := note.GenerateKey(nil, origin)
	wrong, _ := note.NewSigner(osk)
	wsk, _, _ := note.GenerateKey(nil, "witness.example")
	ws, err := f_note.NewSignerForCosignatureV1(wsk)
	if err != nil {
		t.Fatal(err)
	}
	sign := func(s note.Signer, size uint64, root []byte) []byte {
		cp := log.Checkpoint{Origin: origin, Size: size, Hash: root}
		b, err := note.Sign(&note.Note{Text: string(cp.Marshal())}, s)
		if err != nil {
			t.Fatal(err)
		}
		return b
	}
	kinds := map[uint64]error{1: nil, 2: ErrUnknownLog, 3: ErrNoValidSignature, 4: ErrOldSizeInvalid, 5: ErrCheckpointStale, 6: ErrRootMismatch, 7: ErrInvalidProof}
	ok := 0
	for _, sc := range scs {
		m := sc.Model
		known, stored := rB(m, "r.known"), rB(m, "r.stored")
		prevSize, nextSize, oldSize := rU(m, "r.prevSize"), rU(m, "r.nextSize"), rU(m, "r.oldSize")
		max := prevSize
		if nextSize > max {
			max = nextSize
		}
		hsA, rootA := buildTree(t, "A", max)
		_, rootB := buildTree(t, "B", max)
		store := inmemory.NewPersistence()
		w, err := New(Opts{Persistence: store, Signers: []note.Signer{ws}, KnownLogs: map[string]LogInfo{"L": {SigV: lv, Origin: origin, Hasher: rfc6962.DefaultHasher}}})
		if err != nil {
			t.Fatal(err)
		}
		id := "L"
		if !known {
			id = "not-configured"
		}
		var prevRaw []byte
		if known && stored {
			if rB(m, "r.prevValid") {
				prevRaw = sign(ls, prevSize, rootA(prevSize))
			} else {
				prevRaw = []byte("this is not a checkpoint of the log\n")
			}
			wo, err := store.WriteOps(id)
			if err != nil || wo.Set(prevRaw) != nil {
				t.Fatal("preload failed")
			}
			_ = wo.Close()
		}
		// the submitted checkpoint
		var nextRaw []byte
		sameRoot := rB(m, "r.sameRoot")
		vcOK := rB(m, "r.vcOK")
		nextRoot := rootA(nextSize)
		if stored && prevSize == nextSize && !sameRoot {
			nextRoot = rootB(nextSize)
			if nextSize == 0 {
				nextRoot = bytes.Repeat([]byte{9}, 32)
			}
		}
		if stored && nextSize > prevSize && !vcOK && prevSize > 0 {
			nextRoot = rootB(nextSize) // a fork: no proof can verify
		}
		signer := ls
		if known && !rB(m, "r.nextValid") {
			signer = wrong
		}
		nextRaw = sign(signer, nextSize, nextRoot)
		// the proof
		var pf [][]byte
		plen := rU(m, "r.proofLen")
		if stored && nextSize > prevSize && prevSize > 0 && vcOK {
			tp, err := tlog.ProveTree(int64(nextSize), int64(prevSize), hsA)
			if err != nil {
				t.Fatal(err)
			}
			for _, h := range tp {
				h := h
				pf = append(pf, h[:])
			}
		} else {
			for i := uint64(0); i < plen; i++ {
				pf = append(pf, bytes.Repeat([]byte{byte(0xa0 + i)}, 32))
			}
		}
		out, uerr := w.Update(context.Background(), id, oldSize, nextRaw, pf)
		// observed classes
		var gotKind uint64 = 8
		for k, e := range kinds {
			if uerr == e {
				gotKind = k
			}
		}
		var gotOut uint64
		if out != nil {
			switch {
			case uerr == nil:
				gotOut = 2
				// an accepted update hands out a note that verifies under log and witness keys
				if n, err := note.Open(out, note.VerifierList(lv, ws.Verifier())); err != nil || len(n.Sigs) != 2 {
					t.Errorf("REPLAY MISMATCH cover=%s: accepted result does not verify under log and witness keys: %v", sc.Cover, err)
					continue
				}
			case stored && bytes.Equal(out, prevRaw):
				gotOut = 1
			default:
				gotOut = 3
			}
		}
		wantKind, wantOut := rU(m, "r.kind"), rU(m, "r.outKind")
		if gotKind != wantKind || gotOut != wantOut {
			t.Errorf("REPLAY MISMATCH cover=%s: engine predicted (kind %d, bytes %d), real code gave (kind %d, bytes %d, err=%v); model=%v", sc.Cover, wantKind, wantOut, gotKind, gotOut, uerr, m)
			continue
		}
		ok++
	}
	fmt.Printf("REPLAYED %d/%d cover witnesses against the real build\n", ok, len(scs))
}
