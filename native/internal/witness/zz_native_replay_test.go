package witness

// TestReplayCovers is the translator-validation step of the H-UPD checks: for every
// verdict class the symbolic run found reachable, the solver's model (sizes, validity
// flags, root relation, proof verdict) is turned into REAL keys, signed notes, Merkle
// trees and consistency proofs, the real Update runs on the real in-memory store, and the
// observed (error, bytes) class must equal what the engine predicted for that path.

import (
	"bytes"
	"context"
	"encoding/json"
	"fmt"
	"os"
	"strconv"
	"strings"
	"testing"

	"github.com/transparency-dev/formats/log"
	f_note "github.com/transparency-dev/formats/note"
	"github.com/transparency-dev/merkle/rfc6962"
	"github.com/transparency-dev/witness/internal/persistence/inmemory"
	"github.com/transparency-dev/witness/monitoring"
	"golang.org/x/mod/sumdb/note"
	"golang.org/x/mod/sumdb/tlog"
)

type replayScenario struct {
	Cover string            `json:"cover"`
	Model map[string]string `json:"model"`
}

func rU(m map[string]string, k string) uint64 {
	v, ok := m[k]
	if !ok {
		return 0
	}
	v = strings.TrimSpace(v)
	if strings.HasPrefix(v, "#x") {
		u, _ := strconv.ParseUint(v[2:], 16, 64)
		return u
	}
	if strings.HasPrefix(v, "#b") {
		u, _ := strconv.ParseUint(v[2:], 2, 64)
		return u
	}
	return 0
}

func rB(m map[string]string, k string) bool { return strings.TrimSpace(m[k]) == "true" }

// tree helpers over tlog (reference implementation)
type memHashes []tlog.Hash

func (h memHashes) ReadHashes(ix []int64) ([]tlog.Hash, error) {
	out := make([]tlog.Hash, len(ix))
	for i, x := range ix {
		out[i] = h[x]
	}
	return out, nil
}

func buildTree(t *testing.T, tag string, n uint64) (memHashes, func(uint64) []byte) {
	var hs memHashes
	for i := uint64(0); i < n; i++ {
		add, err := tlog.StoredHashes(int64(i), []byte(fmt.Sprintf("%s-leaf-%d", tag, i)), hs)
		if err != nil {
			t.Fatal(err)
		}
		hs = append(hs, add...)
	}
	root := func(size uint64) []byte {
		if size == 0 {
			return rfc6962.DefaultHasher.EmptyRoot()
		}
		h, err := tlog.TreeHash(int64(size), hs)
		if err != nil {
			t.Fatal(err)
		}
		return h[:]
	}
	return hs, root
}

func TestReplayCovers(t *testing.T) {
	path := os.Getenv("WSYM_REPLAY_JSON")
	if path == "" {
		t.Skip("WSYM_REPLAY_JSON not set")
	}
	raw, err := os.ReadFile(path)
	if err != nil {
		t.Fatal(err)
	}
	var scs []replayScenario
	if err := json.Unmarshal(raw, &scs); err != nil {
		t.Fatal(err)
	}
	monitoring.SetMetricFactory(rec)
	const origin = "log.example/replay"
	lsk, lvk, _ := note.GenerateKey(nil, origin)
	ls, _ := note.NewSigner(lsk)
	lv, _ := note.NewVerifier(lvk)
	osk, _, _ := note.GenerateKey(nil, origin)
	wrong, _ := note.NewSigner(osk)
	wsk, _, _ := note.GenerateKey(nil, "witness.example")
	ws, err := f_note.NewSignerForCosignatureV1(wsk)
	if err != nil {
		t.Fatal(err)
	}
	noteOrigin := origin
	sign := func(s note.Signer, size uint64, root []byte) []byte {
		cp := log.Checkpoint{Origin: noteOrigin, Size: size, Hash: root}
		b, err := note.Sign(&note.Note{Text: string(cp.Marshal())}, s)
		if err != nil {
			t.Fatal(err)
		}
		return b
	}
	kinds := map[uint64]error{1: nil, 2: ErrUnknownLog, 3: ErrNoValidSignature, 4: ErrOldSizeInvalid, 5: ErrCheckpointStale, 6: ErrRootMismatch, 7: ErrInvalidProof}
	pad := func(b []byte, lines uint64) []byte {
		// extra signature lines by unknown keys: ignored by note.Open but counted against its limit
		for i := uint64(1); i < lines; i++ {
			b = append(b, []byte(fmt.Sprintf("\u2014 junk%d AAAAAAAA\n", i))...)
		}
		return b
	}
	ok := 0
	// ways in which a submitted checkpoint can fail to be "valid for the named log": the engine
	// only says nextValid=false; a violation witness is tried with each until one reproduces
	invalidVariants := []string{"wrong-key", "other-origin", "origin-extends-configured", "origin-is-prefix-of-configured", "origin-other-case", "origin-trailing-space"}
	for idx, sc := range scs {
		isViolation := strings.HasPrefix(sc.Cover, "violation:")
		for vi, variant := range invalidVariants {
			if vi > 0 && !isViolation {
				break
			}
			m := sc.Model
			known, stored := rB(m, "r.known"), rB(m, "r.stored")
			prevSize, nextSize, oldSize := rU(m, "r.prevSize"), rU(m, "r.nextSize"), rU(m, "r.oldSize")
			if prevSize > 64 || nextSize > 64 {
				fmt.Printf("SCENARIO %d %s unreplayable (tree sizes too large to build)\n", idx, sc.Cover)
				continue
			}
			max := prevSize
			if nextSize > max {
				max = nextSize
			}
			hsA, rootA := buildTree(t, "A", max)
			_, rootB := buildTree(t, "B", max)
			store := inmemory.NewPersistence()
			rec.reset()
			w, err := New(Opts{Persistence: store, Signers: []note.Signer{ws}, KnownLogs: map[string]LogInfo{"L": {SigV: lv, Origin: origin, Hasher: rfc6962.DefaultHasher}}})
			if err != nil {
				t.Fatal(err)
			}
			id := "L"
			if !known {
				id = "not-configured"
			}
			prevValid, nextValid := rB(m, "r.prevValid"), rB(m, "r.nextValid")
			var prevRaw []byte
			if known && stored {
				if prevValid {
					prevRaw = pad(sign(ls, prevSize, rootA(prevSize)), rU(m, "r.prevSigLines"))
				} else {
					prevRaw = []byte("this is not a checkpoint of the log\n")
				}
				wo, err := store.WriteOps(id)
				if err != nil || wo.Set(prevRaw) != nil {
					t.Fatal("preload failed")
				}
				_ = wo.Close()
			}
			// the submitted checkpoint
			sameRoot := rB(m, "r.sameRoot")
			vcOK := rB(m, "r.vcOK")
			nextRoot := rootA(nextSize)
			if stored && prevSize == nextSize && !sameRoot {
				nextRoot = rootB(nextSize)
				if nextSize == 0 {
					nextRoot = bytes.Repeat([]byte{9}, 32)
				}
			}
			if stored && nextSize > prevSize && !vcOK && prevSize > 0 {
				nextRoot = rootB(nextSize) // a fork: no proof can verify
			}
			signer := ls
			noteOrigin = origin
			if known && !nextValid {
				switch variant {
				case "wrong-key":
					signer = wrong
				case "other-origin":
					noteOrigin = "another.example/log"
				case "origin-extends-configured":
					noteOrigin = origin + "0509"
				case "origin-is-prefix-of-configured":
					noteOrigin = origin[:len(origin)-1]
				case "origin-other-case":
					noteOrigin = strings.ToUpper(origin)
				case "origin-trailing-space":
					noteOrigin = origin + " "
				}
			}
			nextRaw := pad(sign(signer, nextSize, nextRoot), rU(m, "r.nextSigLines"))
			noteOrigin = origin
			// the proof
			var pf [][]byte
			plen := rU(m, "r.proofLen")
			if stored && nextSize > prevSize && prevSize > 0 && vcOK {
				tp, err := tlog.ProveTree(int64(nextSize), int64(prevSize), hsA)
				if err != nil {
					t.Fatal(err)
				}
				for _, h := range tp {
					h := h
					pf = append(pf, h[:])
				}
			} else {
				for i := uint64(0); i < plen; i++ {
					pf = append(pf, bytes.Repeat([]byte{byte(0xa0 + i)}, 32))
				}
			}
			out, uerr := w.Update(context.Background(), id, oldSize, nextRaw, pf)
			// observed classes
			var gotKind uint64 = 8
			for k, e := range kinds {
				if uerr == e {
					gotKind = k
				}
			}
			var gotOut uint64
			if out != nil {
				switch {
				case uerr == nil:
					gotOut = 2
				case stored && bytes.Equal(out, prevRaw):
					gotOut = 1
				default:
					gotOut = 3
				}
			}
			accepted := uerr == nil
			after, aerr := w.GetCheckpoint(id)

			// ---- native oracles: the properties, stated over the real artefacts ----
			var failed []string
			fail := func(s string) { failed = append(failed, s) }
			if accepted && !(known && nextValid) {
				fail("C02")
			}
			if accepted && stored {
				if !(prevValid && oldSize == prevSize && nextSize >= prevSize && (nextSize != prevSize || sameRoot) && (nextSize == prevSize || prevSize == 0 || vcOK)) {
					fail("C01")
				}
			}
			if !accepted {
				unchanged := (stored && aerr == nil && bytes.Equal(after, prevRaw)) || (!stored && aerr != nil)
				if !unchanged || !(out == nil || (stored && bytes.Equal(out, prevRaw))) {
					fail("C03")
				}
			}
			if accepted {
				n, err := note.Open(out, note.VerifierList(lv, ws.Verifier()))
				nn, err2 := note.Open(nextRaw, note.VerifierList(lv))
				if err != nil || err2 != nil || len(n.Sigs) != 2 || n.Text != nn.Text || aerr != nil || !bytes.Equal(after, out) {
					fail("C04")
				}
				if aerr == nil {
					if _, _, _, err := log.ParseCheckpoint(after, origin, lv); err != nil {
						fail("C08")
					}
				}
			}
			// C09: first matching rule (claimed cases only)
			claimed, want := true, uint64(0)
			switch {
			case !known:
				want = 2
			case !nextValid:
				want = 3
			case !stored:
				want, claimed = 1, oldSize == 0 && plen == 0
			case !prevValid:
				claimed = false
			case oldSize > nextSize:
				want = 4
			case oldSize != prevSize:
				want = 5
			case nextSize == prevSize && !sameRoot:
				want = 6
			case prevSize == 0 && nextSize > 0:
				claimed = false
			default:
				verdict := vcOK
				if nextSize == prevSize {
					verdict = plen == 0
				}
				if verdict {
					want = 1
				} else {
					want = 7
				}
			}
			if want == 1 && rU(m, "r.nextSigLines")+1 > 100 {
				claimed = false
			}
			if claimed && gotKind != want {
				fail("C09")
			}
			if claimed && (want >= 4 && want <= 7) && !(stored && bytes.Equal(out, prevRaw)) {
				fail("C09")
			}
			// C20: counters tell the truth
			wantC := map[string]int{}
			if known {
				wantC["witness_update_request"] = 1
			}
			if accepted {
				wantC["witness_update_success"] = 1
			}
			if uerr == ErrInvalidProof {
				wantC["witness_update_invalid_consistency"] = 1
			}
			if uerr == ErrRootMismatch {
				wantC["witness_update_inconsistent_checkpoints"] = 1
			}
			for _, name := range []string{"witness_update_request", "witness_update_success", "witness_update_invalid_consistency", "witness_update_inconsistent_checkpoints"} {
				if rec.counts[name+"|"+id] != wantC[name] {
					fail("C20")
					break
				}
			}

			wantKind, wantOut := rU(m, "r.kind"), rU(m, "r.outKind")
			match := gotKind == wantKind && gotOut == wantOut
			if isViolation {
				// a violation witness: report the first variant under which the real code fails an oracle
				if len(failed) > 0 || vi == len(invalidVariants)-1 || nextValid || !known {
					fmt.Printf("SCENARIO %d %s match=%v oracles=%s variant=%s\n", idx, sc.Cover, match, strings.Join(failed, ","), variant)
					break
				}
				continue
			}
			fmt.Printf("SCENARIO %d %s match=%v oracles=%s\n", idx, sc.Cover, match, strings.Join(failed, ","))
			if !match {
				t.Errorf("REPLAY MISMATCH cover=%s: engine predicted (kind %d, bytes %d), real code gave (kind %d, bytes %d, err=%v); model=%v", sc.Cover, wantKind, wantOut, gotKind, gotOut, uerr, m)
				break
			}
			ok++
		}
	}
	fmt.Printf("REPLAYED %d cover witnesses against the real build\n", ok)
}

// recFactory records counter increments (installed once per test process).
type recFactory struct{ counts map[string]int }

var rec = &recFactory{counts: map[string]int{}}

func (r *recFactory) reset() { r.counts = map[string]int{} }
func (r *recFactory) NewCounter(name, help string, labelNames ...string) monitoring.Counter {
	return recCounter{r: r, name: name}
}

type recCounter struct {
	r    *recFactory
	name string
}

func (c recCounter) Inc(labelVals ...string) {
	c.r.counts[c.name+"|"+strings.Join(labelVals, "|")]++
}
