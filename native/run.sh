#!/bin/bash
# Runs the native reproductions under /verif/native (a mirror of /repo's tree) against /repo's
# working tree without touching it: files are injected with -overlay, module files are copied
# to scratch.   usage: native/run.sh <package dir relative to repo root> [go test flags]
set -u
cd "$(dirname "$0")/.."
export GOFLAGS=-mod=mod GOPROXY=off GOSUMDB=off GOTOOLCHAIN=local
REPO="${WSYM_REPO:-/repo}"
pkg="$1"; shift
work="$PWD/.work/native.$$"; mkdir -p "$work"
cp "$REPO/go.mod" "$work/replay.mod"; cp "$REPO/go.sum" "$work/replay.sum"
python3 - "$work" "$REPO" <<'PY'
import json,os,sys
work,repo=sys.argv[1:3]
rep={}
for root,_,files in os.walk('native'):
    for f in files:
        if f.endswith('.go'):
            rel=os.path.relpath(os.path.join(root,f),'native')
            rep[os.path.join(repo,rel)]=os.path.abspath(os.path.join(root,f))
json.dump({"Replace":rep},open(os.path.join(work,'overlay.json'),'w'))
PY
(cd "$REPO" && go test -modfile="$work/replay.mod" -overlay="$work/overlay.json" -vet=off -count=1 "$@" "./$pkg/")
rc=$?
rm -rf "$work"
exit $rc
