#!/bin/bash
# Runs the native reproductions in /verif/native against /repo's working tree without
# touching it: test files are injected with -overlay, module files are copied to scratch.
# usage: native/run.sh <pkg-dir-under-native> [-run regexp]
set -u
cd "$(dirname "$0")/.."
export GOFLAGS=-mod=mod GOPROXY=off GOSUMDB=off GOTOOLCHAIN=local
REPO="${WSYM_REPO:-/repo}"
pkg="$1"; shift
work=".work/native.$$"; mkdir -p "$work"
cp "$REPO/go.mod" "$work/replay.mod"; cp "$REPO/go.sum" "$work/replay.sum"
python3 - "$pkg" "$work" "$REPO" <<'PY'
import json,os,sys
pkg,work,repo=sys.argv[1:4]
rep={}
for f in os.listdir(os.path.join('native',pkg)):
    if f.endswith('.go'):
        rep[os.path.join(repo,'internal',pkg,f)]=os.path.abspath(os.path.join('native',pkg,f))
json.dump({"Replace":rep},open(os.path.join(work,'overlay.json'),'w'))
PY
(cd "$REPO" && go test -modfile="$OLDPWD/$work/replay.mod" -overlay="$OLDPWD/$work/overlay.json" -vet=off -count=1 "$@" "./internal/$pkg/")
rc=$?
rm -rf "$work"
exit $rc
