package omniwitness

import (
	"bytes"
	"net/http"
	"net/http/httptest"
	"testing"

	"github.com/transparency-dev/formats/log"
	f_note "github.com/transparency-dev/formats/note"
	"github.com/transparency-dev/merkle/rfc6962"
	"github.com/transparency-dev/witness/internal/config"
	"github.com/transparency-dev/witness/internal/feeder/bastion"
	"github.com/transparency-dev/witness/internal/persistence/inmemory"
	"github.com/transparency-dev/witness/internal/witness"
	"github.com/transparency-dev/witness/monitoring"
	"golang.org/x/mod/sumdb/note"
)

// F1: with the real witness behind it, the bastion endpoint must answer a checkpoint that
// carries no valid log signature with 403 (not 500).
func TestNativeF1InvalidSignatureStatus(t *testing.T) {
	monitoring.SetMetricFactory(monitoring.InertMetricFactory{})
	const origin = "log.example/native"
	lsk, lvk, _ := note.GenerateKey(nil, origin)
	_ = lsk
	osk, _, _ := note.GenerateKey(nil, origin) // some other key with the same name
	other, _ := note.NewSigner(osk)
	wsk, _, _ := note.GenerateKey(nil, "witness.example")
	ws, err := f_note.NewSignerForCosignatureV1(wsk)
	if err != nil {
		t.Fatal(err)
	}
	lc := LogConfig{Logs: []LogInfo{{Origin: origin, PublicKey: lvk}}}
	known, err := lc.AsLogMap()
	if err != nil {
		t.Fatal(err)
	}
	w, err := witness.New(witness.Opts{Persistence: inmemory.NewPersistence(), Signers: []note.Signer{ws}, KnownLogs: known})
	if err != nil {
		t.Fatal(err)
	}
	l, err := config.NewLog(origin, lvk, "https://log.example")
	if err != nil {
		t.Fatal(err)
	}
	h := bastion.NativeNewHandler(witnessAdapter{w: w}, []config.Log{l}, ws.Verifier())
	cp := log.Checkpoint{Origin: origin, Size: 1, Hash: rfc6962.DefaultHasher.HashLeaf([]byte("a"))}
	forged, _ := note.Sign(&note.Note{Text: string(cp.Marshal())}, other)
	body := append([]byte("old 0\n\n"), forged...)
	rr := httptest.NewRecorder()
	h.ServeHTTP(rr, httptest.NewRequest(http.MethodPost, "/", bytes.NewReader(body)))
	if rr.Code != http.StatusForbidden {
		t.Fatalf("F1 reproduced: checkpoint without a valid log signature answered %d, want 403", rr.Code)
	}
}
