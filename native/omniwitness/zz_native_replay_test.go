package omniwitness

// TestReplayBastion is the translator-validation step of the C10 check: for every status class
// the symbolic run of the bastion harness found reachable, the solver's model is turned into a
// real deployment (real keys, AsLogMap/NewLog configuration, real witness and store, real
// signed notes, Merkle trees, proofs), a real HTTP request body is sent through the real handler,
// and the observed status / content type / body presence must equal the engine's prediction.

import (
	"bytes"
	"context"
	"encoding/base64"
	"encoding/json"
	"fmt"
	"net/http"
	"net/http/httptest"
	"os"
	"strconv"
	"strings"
	"testing"

	"github.com/transparency-dev/formats/log"
	f_note "github.com/transparency-dev/formats/note"
	"github.com/transparency-dev/merkle/rfc6962"
	"github.com/transparency-dev/witness/internal/config"
	"github.com/transparency-dev/witness/internal/feeder/bastion"
	"github.com/transparency-dev/witness/internal/persistence/inmemory"
	"github.com/transparency-dev/witness/internal/witness"
	"github.com/transparency-dev/witness/monitoring"
	"golang.org/x/mod/sumdb/note"
	"golang.org/x/mod/sumdb/tlog"
)

type bScenario struct {
	Cover string            `json:"cover"`
	Model map[string]string `json:"model"`
}

func bU(m map[string]string, k string) uint64 {
	v := strings.TrimSpace(m[k])
	if strings.HasPrefix(v, "#x") {
		u, _ := strconv.ParseUint(v[2:], 16, 64)
		return u
	}
	if strings.HasPrefix(v, "#b") {
		u, _ := strconv.ParseUint(v[2:], 2, 64)
		return u
	}
	return 0
}
func bB(m map[string]string, k string) bool { return strings.TrimSpace(m[k]) == "true" }

type bHashes []tlog.Hash

func (h bHashes) ReadHashes(ix []int64) ([]tlog.Hash, error) {
	out := make([]tlog.Hash, len(ix))
	for i, x := range ix {
		out[i] = h[x]
	}
	return out, nil
}

func bTree(t *testing.T, tag string, n uint64) (bHashes, func(uint64) []byte) {
	var hs bHashes
	for i := uint64(0); i < n; i++ {
		add, err := tlog.StoredHashes(int64(i), []byte(fmt.Sprintf("%s-leaf-%d", tag, i)), hs)
		if err != nil {
			t.Fatal(err)
		}
		hs = append(hs, add...)
	}
	return hs, func(size uint64) []byte {
		if size == 0 {
			return rfc6962.DefaultHasher.EmptyRoot()
		}
		h, err := tlog.TreeHash(int64(size), hs)
		if err != nil {
			t.Fatal(err)
		}
		return h[:]
	}
}

func TestReplayBastion(t *testing.T) {
	path := os.Getenv("WSYM_REPLAY_JSON")
	if path == "" {
		t.Skip("WSYM_REPLAY_JSON not set")
	}
	raw, err := os.ReadFile(path)
	if err != nil {
		t.Fatal(err)
	}
	var scs []bScenario
	if err := json.Unmarshal(raw, &scs); err != nil {
		t.Fatal(err)
	}
	monitoring.SetMetricFactory(monitoring.InertMetricFactory{})
	const origin = "log.example/replay"
	lsk, lvk, _ := note.GenerateKey(nil, origin)
	ls, _ := note.NewSigner(lsk)
	osk, _, _ := note.GenerateKey(nil, origin)
	wrong, _ := note.NewSigner(osk)
	wsk, _, _ := note.GenerateKey(nil, "witness.example")
	ws, err := f_note.NewSignerForCosignatureV1(wsk)
	if err != nil {
		t.Fatal(err)
	}
	sign := func(s note.Signer, org string, size uint64, root []byte) []byte {
		cp := log.Checkpoint{Origin: org, Size: size, Hash: root}
		b, err := note.Sign(&note.Note{Text: string(cp.Marshal())}, s)
		if err != nil {
			t.Fatal(err)
		}
		return b
	}
	ok := 0
	// a violation witness only says THAT the checkpoint's origin is not a configured one (or that
	// the checkpoint is not valid for its log), not how: it is rebuilt in several ways and the
	// first under which the real handler departs from the documented answer is reported
	originVariants := []string{"some.other/origin", origin + "0", origin[:len(origin)-1], strings.ToUpper(origin), origin + " "}
	for idx, sc := range scs {
		isViolation := strings.HasPrefix(sc.Cover, "violation:")
		for vi, unknownOrigin := range originVariants {
			if vi > 0 && !isViolation {
				break
			}
			m := sc.Model
			lc := LogConfig{Logs: []LogInfo{{Origin: origin, PublicKey: lvk}}}
			known, err := lc.AsLogMap()
			if err != nil {
				t.Fatal(err)
			}
			store := inmemory.NewPersistence()
			w, err := witness.New(witness.Opts{Persistence: store, Signers: []note.Signer{ws}, KnownLogs: known})
			if err != nil {
				t.Fatal(err)
			}
			l, err := config.NewLog(origin, lvk, "https://log.example")
			if err != nil {
				t.Fatal(err)
			}
			h := bastion.NativeNewHandlerLimited(witnessAdapter{w: w}, []config.Log{l}, ws.Verifier(), bB(m, "b.allow"))

			prevSize, nextSize, oldSize := bU(m, "b.prevSize"), bU(m, "b.nextSize"), bU(m, "b.oldSize")
			max := prevSize
			if nextSize > max {
				max = nextSize
			}
			hsA, rootA := bTree(t, "A", max)
			_, rootB := bTree(t, "B", max)
			knownOrigin, stored := bB(m, "b.known"), bB(m, "b.stored")
			if knownOrigin && stored {
				switch {
				case bB(m, "b.prevValid") && bB(m, "b.prevWitOK"):
					// a checkpoint this witness really cosigned
					if _, err := w.Update(context.Background(), l.ID, 0, sign(ls, origin, prevSize, rootA(prevSize)), nil); err != nil {
						t.Fatalf("preload by update failed: %v", err)
					}
				default:
					var b []byte
					if bB(m, "b.prevValid") {
						b = sign(ls, origin, prevSize, rootA(prevSize)) // log-signed but not cosigned by this witness
					} else {
						b = []byte("this is not a checkpoint of the log\n")
					}
					wo, err := store.WriteOps(l.ID)
					if err != nil || wo.Set(b) != nil {
						t.Fatal("preload failed")
					}
					_ = wo.Close()
				}
			}
			var body []byte
			if bB(m, "b.malformed") {
				body = []byte("this is not an add-checkpoint request")
			} else {
				org := origin
				if !knownOrigin {
					org = unknownOrigin
				}
				sameRoot, vcOK := bB(m, "b.sameRoot"), bB(m, "b.vcOK")
				root := rootA(nextSize)
				if stored && prevSize == nextSize && !sameRoot {
					root = rootB(nextSize)
					if nextSize == 0 {
						root = bytes.Repeat([]byte{9}, 32)
					}
				}
				if stored && nextSize > prevSize && !vcOK && prevSize > 0 {
					root = rootB(nextSize)
				}
				signer := ls
				if knownOrigin && !bB(m, "b.nextValid") {
					signer = wrong
				}
				var cp []byte
				if !bB(m, "b.hasNewline") && m["b.hasNewline"] != "" {
					cp = []byte("no-second-line")
				} else {
					cp = sign(signer, org, nextSize, root)
				}
				var pf [][]byte
				if stored && nextSize > prevSize && prevSize > 0 && vcOK {
					tp, err := tlog.ProveTree(int64(nextSize), int64(prevSize), hsA)
					if err != nil {
						t.Fatal(err)
					}
					for _, x := range tp {
						x := x
						pf = append(pf, x[:])
					}
				} else {
					for i := uint64(0); i < bU(m, "b.proofLen"); i++ {
						pf = append(pf, bytes.Repeat([]byte{byte(0xa0 + i)}, 32))
					}
				}
				body = []byte(fmt.Sprintf("old %d\n", oldSize))
				for _, x := range pf {
					body = append(body, []byte(base64.StdEncoding.EncodeToString(x)+"\n")...)
				}
				body = append(body, '\n')
				body = append(body, cp...)
			}
			rr := httptest.NewRecorder()
			h.ServeHTTP(rr, httptest.NewRequest(http.MethodPost, "/", bytes.NewReader(body)))
			gotStatus := uint64(rr.Code)
			gotSizeBody := rr.Header().Get("Content-Type") == "text/x.tlog.size"
			gotHasBody := rr.Body.Len() > 0
			match := gotStatus == bU(m, "b.status") && gotSizeBody == bB(m, "b.sizeBody") && gotHasBody == bB(m, "b.hasBody")
			// on 200 the body must be a signature line that verifies under the witness key over the submitted text
			if gotStatus == 200 {
				got, gerr := w.GetCheckpoint(l.ID)
				if gerr != nil || !bytes.Contains(got, bytes.TrimSpace(rr.Body.Bytes())) {
					match = false
				}
			}
			if isViolation {
				// native oracle: the documented answer for the classes that need no witness state
				var want uint64
				switch {
				case !bB(m, "b.allow"):
					want = 429
				case bB(m, "b.malformed"):
					want = 400
				case m["b.hasNewline"] != "" && !bB(m, "b.hasNewline"):
					want = 0 // (not stated here)
				case !knownOrigin:
					want = 404
				case !bB(m, "b.nextValid"):
					want = 403
				}
				oracles := ""
				if want != 0 && gotStatus != want {
					oracles = "C10,C12"
				}
				if oracles != "" || vi == len(originVariants)-1 || knownOrigin {
					fmt.Printf("SCENARIO %d %s match=%v (status %d, documented %d, origin %q) oracles=%s\n", idx, sc.Cover, match, gotStatus, want, unknownOrigin, oracles)
					break
				}
				continue
			}
			fmt.Printf("SCENARIO %d %s match=%v (status %d, size-body %v, body %v)\n", idx, sc.Cover, match, gotStatus, gotSizeBody, gotHasBody)
			if !match {
				t.Errorf("REPLAY MISMATCH cover=%s: engine predicted status %d sizeBody=%v hasBody=%v, real handler answered %d sizeBody=%v hasBody=%v; model=%v", sc.Cover, bU(m, "b.status"), bB(m, "b.sizeBody"), bB(m, "b.hasBody"), gotStatus, gotSizeBody, gotHasBody, m)
				break
			}
			ok++
		}
	}
	fmt.Printf("REPLAYED %d cover witnesses against the real build\n", ok)
}
